"""C08 - a dotted parameter key addresses exactly one existing setting."""

from __future__ import annotations

import ast

from sa.astutil import (
    knows,
    only_knows,
    loop_exits,
    arg_or_kw,
    call_name,
    calls_in,
    conjuncts,
    contains,
    enclosing_loop,
    enclosing_tests,
    expand,
    kw,
    local_defs,
    loops_in,
    names_in,
    raising_ifs,
    returns_of,
    stmt_calls,
    stores,
)
from sa.cfg import defs_reaching
from sa.index import AnalysisError, dotted, enclosing_stmt, norm, walk_ordered

EXPLANATION = (
    "Guard-dominance and wiring analysis of key resolution: Arguments refuses unknown keys before "
    "storing, Processor.set rejects a key for which has() is false before its single store, has/set "
    "share one resolver called with the unmodified key, the resolver's attribute walk raises instead "
    "of creating, ModelGroup.__getattr__ returns only a model of that name, validate_steps carries "
    "the has / model-enabled / placeholder checks for every enabled step, and the stored value is "
    "the literal conversion of the given one."
)
NOT_DECIDED = ["which Python literal a given text denotes (ast.literal_eval's own semantics; R7 decides only that the text reaches literal_eval unaltered unless it is not a literal, in which case it is quoted)", "read-back for properties whose setters derive other fields by design (APD characteristics)", "calibration keys addressing a disabled model (statement speaks of sweeps)"]
ASSUMPTIONS = ["setattr on an object without the attribute creates it (hence the has() guard is required)"]

PROC = "pyxel.pipelines.processor:Processor"
ARGS = "pyxel.pipelines.model_function:Arguments"
GOA = "pyxel.pipelines.processor:_get_obj_att"


def _dominating_raise_guard(ctx, f, store_stmt, pred) -> bool:
    g = ctx.cfg(f)
    guards = [i for i in raising_ifs(f.node) if pred(i.test)]
    gn = [n for i in guards for n in g.nodes_of(i)]
    sn = g.nodes_of(store_stmt)
    return bool(gn) and all(g.must_precede(gn, s) for s in sn)


def r1_arguments_refuse_unknown(ctx):
    """Arguments.__setitem__/__setattr__: the `key not in self._arguments` guard ending in raise dominates the store into _arguments; __getitem__/__getattr__ raise for unknown keys."""
    ci = ctx.cls(ARGS)
    for m in ("__setitem__", "__setattr__"):
        f = ci.methods.get(m)
        if f is None:
            raise AnalysisError(f"Arguments.{m} not found")
        k = f.params[1]
        sts = [st for st, t in stores(f.node, lambda t: isinstance(t, ast.Subscript) and dotted(t.value) == "self._arguments")]
        if not sts:
            ctx.fail(f.qual, "no store into self._arguments", where=f, node=f.node)
            continue
        for st in sts:
            t = st.targets[0]
            okk = dotted(t.slice) == k and dotted(st.value) == f.params[2]
            # whatever the spelling (guard clause, if/else, negated test): where the store executes the key is
            # known to be an argument, and a path on which it is not ends in a raise
            from sa.astutil import knows, raise_conditions

            ok = knows(enclosing_tests(st, rejections=True), f"{k} in self._arguments", True) and any(knows(cs, f"{k} in self._arguments", False) for _r, cs in raise_conditions(f))
            ctx.check(ok and okk, f.qual, "unknown key raises before the store" if ok and okk else ("an unknown argument name is stored silently (guard missing or bypassable)" if okk else f"stores {norm(st)}"), where=f, node=st)
    for m in ("__getitem__", "__getattr__"):
        f = ci.methods.get(m)
        if f is None:
            raise AnalysisError(f"Arguments.{m} not found")
        k = f.params[1]
        g = ctx.cfg(f)
        from sa.astutil import knows, raise_conditions

        rets = [r for r in returns_of(f) if r.value is not None and norm(r.value) == f"self._arguments[{k}]"]
        raising = [r_ for r_, cs in raise_conditions(f) if knows(cs, f"{k} in self._arguments", False)]
        ok = bool(raising) and bool(rets) and all(knows(enclosing_tests(r, rejections=True), f"{k} in self._arguments", True) for r in rets)
        ctx.check(ok, f.qual, "unknown key raises" if ok else "reading an unknown argument does not raise", where=f, node=raising[0] if raising else f.node)


def _final_stores(f):
    """The stores of Processor.set that write the setting: obj[att] = v / setattr(obj, att, v)."""
    out = []
    for n in walk_ordered(f.node):
        if isinstance(n, ast.Assign) and isinstance(n.targets[0], ast.Subscript) and isinstance(n.targets[0].value, ast.Name):
            out.append((n, dotted(n.targets[0].value), dotted(n.targets[0].slice), n.value))
        if isinstance(n, ast.Expr) and isinstance(n.value, ast.Call) and call_name(n.value) == "setattr" and len(n.value.args) == 3:
            a = n.value.args
            out.append((n, dotted(a[0]), dotted(a[1]), a[2]))
    return out


def r2_set_is_existence_checked(ctx):
    """Processor.set raises when has(key) is false, and that guard dominates the store; the running-mode branch of apply_overrides stores only under hasattr(obj, att) and raises otherwise."""
    f = ctx.func(f"{PROC}.set")
    k = f.params[1]
    fs = _final_stores(f)
    if not fs:
        ctx.fail(f.qual, "Processor.set stores nothing", where=f, node=f.node)
        return
    for st, o, a, v in fs:
        ok = _dominating_raise_guard(ctx, f, st, lambda test: norm(test) == f"not self.has({k})" or norm(test) == f"not self.has(key={k})")
        ctx.check(ok, f.qual + "#exists", "a key for which has() is false raises before the store" if ok else "no existence check dominates the store: a misspelt key silently creates a new attribute", where=f, node=st)
    ao = ctx.func("pyxel.run:apply_overrides")
    sa = [n for n in walk_ordered(ao.node) if isinstance(n, ast.Call) and call_name(n) == "setattr"]
    from sa.astutil import raise_conditions as _rc

    for c in sa:
        want = f"hasattr({norm(c.args[0])}, {norm(c.args[1])})"
        # the store happens only where the attribute is known to exist (if-branch or after a raising guard clause) ...
        ts = enclosing_tests(c, rejections=True)
        ok = any(pol and norm(t) == want for t, pol in ts)
        # ... and a key whose attribute does not exist is refused
        ok = ok and any(any((not pol) and norm(t) == want for t, pol in conds) for _, conds in _rc(ao))
        ctx.check(ok, ao.qual + "#mode-key", "running-mode override: hasattr guard, else raise" if ok else "a misspelt running-mode override key creates a new attribute", where=ao, node=c)
    ps = stmt_calls(ao, ctx.R, {f"{PROC}.set"})
    ok = len(ps) == 1 and dotted(kw(ps[0], "key") or (ps[0].args[0] if ps[0].args else None)) == "key" and dotted(kw(ps[0], "value") or (ps[0].args[1] if len(ps[0].args) > 1 else None)) == "value"
    ctx.check(ok, ao.qual + "#processor-key", "other override keys go through Processor.set(key, value)" if ok else "override keys bypass Processor.set", where=ao, node=ps[0] if ps else ao.node)
    # every given override is either applied or refused: decided per path through each loop over the
    # overrides (sa/paths.py) - no path leaves a loop early, and a path that skips a key must be
    # complemented by another loop that handles keys of that kind
    from sa.paths import enumerate_paths

    olps = [l for l in loops_in(ao.node) if isinstance(l, ast.For) and "overrides" in names_in(l.iter)]
    kinds: dict[bool, int] = {True: 0, False: 0}
    skipped: list = []
    for lp in olps:
        for q_ in enumerate_paths(lp.body):
            if q_.exit in ("break", "return"):
                ctx.fail(ao.qual + "#every-override", f"`{q_.exit}` leaves the loop over the overrides when {q_.cond_texts()[:3]}: the overrides listed after that key are neither applied nor checked", where=ao, node=q_.exit_node or lp)
                continue
            modeish = [p_ for t_, p_ in q_.cond_texts() if "startswith" in t_]
            is_mode = any(modeish) if modeish else None
            applied = q_.exit == "raise" or bool(q_.called("setattr")) or bool(q_.called("set"))
            if applied and is_mode is not None:
                kinds[is_mode] += 1
            elif applied:
                kinds[True] += 1
                kinds[False] += 1
            else:
                skipped.append((lp, is_mode, q_))
    for lp, is_mode, q_ in skipped:
        ok = is_mode is not None and kinds[is_mode] > 0
        ctx.check(ok, ao.qual + "#every-override", "a key skipped by one pass is handled by another" if ok else f"an override is skipped without being applied or refused when {q_.cond_texts()[:3]}", where=ao, node=lp)
    ok = bool(olps) and kinds[True] > 0 and kinds[False] > 0
    ctx.check(ok, ao.qual + "#every-override", f"{len(olps)} loop(s) over the overrides: running-mode keys and processor keys are both applied or refused, no early exit" if ok else "not every kind of override key is applied", where=ao, node=olps[0] if olps else ao.node)


def r3_single_resolution_rule(ctx):
    """has and set resolve through the same _get_obj_att(self, key) with the unmodified key; the resolver returns (object, last component), walks attributes with hasattr/getattr and raises for a missing component; ModelGroup.__getattr__ returns only a model whose name matches and raises otherwise; no class on a Processor path is a dict/list subclass."""
    has = ctx.func(f"{PROC}.has")
    st = ctx.func(f"{PROC}.set")
    for f in (has, st):
        k = f.params[1]
        cs = stmt_calls(f, ctx.R, {GOA})
        ok = len(cs) == 1
        if ok:
            a_o = arg_or_kw(cs[0], 0, "obj")
            a_k = arg_or_kw(cs[0], 1, "key")
            ok = dotted(a_o) == "self" and dotted(a_k) == k and arg_or_kw(cs[0], 2, "obj_type") is None
        ctx.check(ok, f.qual + "#resolver", "_get_obj_att(self, key) with the unmodified key" if ok else "resolves the key differently from its sibling", where=f, node=cs[0] if cs else f.node)
        for s_, val in local_defs(f, k):
            ctx.fail(f.qual + "#key-rewritten", f"the key is rewritten before resolution: {norm(s_)[:70]}", where=f, node=s_)
    rets = [r for r in returns_of(has) if r.value is not None]
    # has: True only from `att in obj` (dict) or hasattr(obj, att)
    from sa.astutil import result_sites
    from sa.index import ancestors

    fd = result_sites(has)
    okh = any(norm(val) == "hasattr(obj, att)" for _, val in fd)
    ctx.check(okh, has.qual + "#hasattr", "existence = hasattr(obj, att)" if okh else "has() no longer tests hasattr(obj, att)", where=has, node=fd[0][0] if fd else has.node)
    for s_, val in fd:
        if isinstance(val, ast.Constant) and val.value is True:
            in_handler = [a for a in ancestors(s_) if isinstance(a, ast.ExceptHandler)]
            okv = bool(in_handler) and in_handler[0].type is not None and norm(in_handler[0].type) == "ValueError"
            okv = okv or any(pol and ("att in obj" in norm(t) or "att in obj" in norm(expand(has, t, _seen={"att", "obj"}))) for t, pol in enclosing_tests(s_))
            ctx.check(okv, has.qual + "#true-default", "True only for a dict entry or when hasattr itself raised ValueError (uninitialised bucket)" if okv else "has() answers True without looking", where=has, node=s_)
    g = ctx.func(GOA)
    # split: *body, tail = key.split(".")
    sp = [s_ for s_ in walk_ordered(g.node) if isinstance(s_, ast.Assign) and isinstance(s_.targets[0], ast.Tuple) and norm(s_.value) == "key.split('.')"]
    ok = len(sp) == 1 and len(sp[0].targets[0].elts) == 2 and isinstance(sp[0].targets[0].elts[0], ast.Starred) and isinstance(sp[0].targets[0].elts[1], ast.Name)
    tail = sp[0].targets[0].elts[1].id if ok else None
    body = sp[0].targets[0].elts[0].value.id if ok else None
    ctx.check(ok, GOA + "#split", "*body, tail = key.split('.')" if ok else "key is not split into path and last component", where=g, node=sp[0] if sp else g.node)
    rets = [r for r in returns_of(g) if r.value is not None]
    ok = bool(rets) and all(isinstance(r.value, ast.Tuple) and len(r.value.elts) == 2 and (dotted(r.value.elts[0]) == "obj" or (isinstance(r.value.elts[0], ast.Constant) and r.value.elts[0].value is None)) and dotted(r.value.elts[1]) == tail for r in rets) and any(dotted(r.value.elts[0]) == "obj" for r in rets)
    ctx.check(ok, GOA + "#return", "returns (object, last component)" if ok else "resolver returns something else than (object, last component)", where=g, node=rets[0] if rets else g.node)
    lp = [l for l in loops_in(g.node) if isinstance(l, ast.For) and enclosing_loop(l) is None]
    ok = len(lp) == 1 and dotted(lp[0].iter) == body
    ctx.check(ok, GOA + "#walk", "walks every path component in order" if ok else "path components are not walked in order", where=g, node=lp[0] if lp else g.node)
    if ok:
        part = lp[0].target.id
        walk = [s_ for s_ in walk_ordered(lp[0]) if isinstance(s_, ast.Assign) and norm(s_) == f"obj = getattr(obj, {part})"]
        good = False
        for w in walk:
            ts = enclosing_tests(w, stop=lp[0])
            if ts and ts[0][1] and norm(ts[0][0]) == f"hasattr(obj, {part})":
                # sibling else must raise
                from sa.index import parent
                from sa.cfg import ends_in_raise

                iff = parent(w)
                if isinstance(iff, ast.If) and iff.orelse and ends_in_raise(iff.orelse):
                    good = True
        ctx.check(good, GOA + "#attr-step", "attribute step: hasattr -> getattr, else raise" if good else "a missing path component does not raise", where=g, node=walk[0] if walk else lp[0])
    # a handler that catches the "missing component" error must leave NO object behind: otherwise the
    # last component is looked up on whatever was resolved so far (a parent of the bogus component)
    from sa.paths import enumerate_paths

    for tr in [t for t in walk_ordered(g.node) if isinstance(t, ast.Try)]:
        for h in tr.handlers:
            caught = norm(h.type) if h.type is not None else "BaseException"
            if not any(x in caught for x in ("AttributeError", "Exception", "BaseException", "LookupError", "KeyError")):
                continue
            bad = None
            for q_ in enumerate_paths(h.body):
                if q_.exit == "raise":
                    continue
                v_ = q_.env.get("obj")
                if q_.exit == "return" and isinstance(q_.value, ast.Tuple) and q_.value.elts:
                    v_ = q_.value.elts[0]
                if not (isinstance(v_, ast.Constant) and v_.value is None):
                    bad = q_
                    break
            ctx.check(bad is None, GOA + f"#unresolved-is-none:{caught}", "an unresolvable component leaves no object (None) behind" if bad is None else f"after an unresolvable component the resolver keeps {norm(v_) if v_ is not None else 'the object resolved so far'}: the last name is then looked up on a parent of the bogus component", where=g, node=h)
    mg = ctx.func("pyxel.pipelines.model_group:ModelGroup.__getattr__")
    item = mg.params[1]
    rets = [r for r in returns_of(mg) if r.value is not None]
    ok = bool(rets)
    for r in rets:
        l_ = enclosing_loop(r)
        ts = enclosing_tests(r)
        ok = ok and isinstance(l_, ast.For) and dotted(l_.iter) == "self.models" and isinstance(l_.target, ast.Name) and dotted(r.value) == l_.target.id and len(ts) == 1 and ts[0][1] and norm(ts[0][0]) in (f"{l_.target.id}.name == {item}", f"{item} == {l_.target.id}.name")
    raises = [n for n in walk_ordered(mg.node) if isinstance(n, ast.Raise)]
    ok = ok and bool(raises) and "AttributeError" in norm(raises[-1])
    ctx.check(ok, mg.qual, "returns the model whose name matches, else AttributeError" if ok else "ModelGroup.__getattr__ can return a model of another name / does not raise for an unknown name", where=mg, node=rets[0] if rets else mg.node)
    path_classes = [
        PROC,
        "pyxel.detectors.detector:Detector",
        "pyxel.detectors.geometry:Geometry",
        "pyxel.detectors.environment:Environment",
        "pyxel.detectors.characteristics:Characteristics",
        "pyxel.pipelines.pipeline:DetectionPipeline",
        "pyxel.pipelines.model_group:ModelGroup",
        "pyxel.pipelines.model_function:ModelFunction",
        ARGS,
        "pyxel.observation.observation:Observation",
        "pyxel.exposure.readout:Readout",
    ]
    n = 0
    for q in path_classes:
        ci = ctx.cls(q)
        for c in [ci] + ctx.repo.subclasses(ci):
            n += 1
            bad = [b for b in c.base_exprs if b.split("[")[0] in ("dict", "list", "Dict", "List", "UserDict", "UserList", "OrderedDict")]
            ctx.check(not bad, c.qual + "#bases", "not a dict/list subclass (resolver degenerates to the attribute walk)" if not bad else f"{c.name} derives from {bad}: the resolver takes its container branch", where=c, node=c.node)
    ctx.floor(n, 15)


def r4_validate_steps(ctx):
    """validate_steps, for every enabled step: missing key raises; a key under 'pipeline.' whose model is not enabled raises; a '_' placeholder outside custom mode raises."""
    f = ctx.func("pyxel.observation.observation:Observation.validate_steps")
    p = f.params[1]
    lp = [l for l in loops_in(f.node) if isinstance(l, ast.For) and enclosing_loop(l) is None]
    ok = len(lp) == 1 and dotted(lp[0].iter) == "self.parameter_mode.enabled_steps" and isinstance(lp[0].target, ast.Name)
    ctx.check(ok, f.qual + "#loop", "checks every enabled step" if ok else "does not iterate self.parameter_mode.enabled_steps", where=f, node=lp[0] if lp else f.node)
    if not ok:
        return
    lp = lp[0]
    sv = lp.target.id
    g = ctx.cfg(f)
    header = g.node_of(lp)
    # decided on the conditions under which each `raise` of one iteration is reached (canonical polarity;
    # `if bad: raise`, `if good: return` + raise, else-branches and inlined helpers all read the same)
    from sa.astutil import raise_conditions

    def _cat(e) -> str:
        """'a' + b / f"{b}a" as one canonical concatenation text."""
        e = expand(f, e)
        if isinstance(e, ast.JoinedStr):
            parts = []
            for v in e.values:
                if isinstance(v, ast.Constant):
                    parts.append(repr(v.value))
                elif isinstance(v, ast.FormattedValue) and v.format_spec is None and v.conversion == -1:
                    parts.append(norm(expand(f, v.value)))
                else:
                    return norm(e)
            return " + ".join(parts)
        if isinstance(e, ast.BinOp) and isinstance(e.op, ast.Add):
            return _cat(e.left) + " + " + _cat(e.right)
        return norm(e)

    key_txt = f"{sv}.key"
    raises_ = []
    for r_, conds in raise_conditions(f):
        if not contains(lp, r_):
            continue
        flat = []

        def _flat(t, pol):
            t = expand(f, t)
            if isinstance(t, ast.UnaryOp) and isinstance(t.op, ast.Not):
                return _flat(t.operand, not pol)
            if isinstance(t, ast.BoolOp) and ((isinstance(t.op, ast.And) and pol) or (isinstance(t.op, ast.Or) and not pol)):
                for v in t.values:
                    _flat(v, pol)
                return
            flat.append((norm(t), pol, t))

        for t, pol in conds:
            _flat(t, pol)
        raises_.append((r_, flat))
    g_has = [r_ for r_, cs in raises_ if [(t, pol) for t, pol, _ in cs] == [(f"{p}.has({key_txt})", False)] or [(t, pol) for t, pol, _ in cs] == [(f"{p}.has(key={key_txt})", False)]]
    ok = len(g_has) == 1
    ctx.check(ok, f.qual + "#has", "a key that does not exist raises" if ok else "validate_steps no longer rejects a key that does not exist", where=f, node=g_has[0] if g_has else lp)
    g_en = []
    for r_, cs in raises_:
        for t, pol, raw in cs:
            rx = expand(f, raw)
            if not pol and isinstance(rx, ast.Call) and dotted(rx.func) == f"{p}.get" and rx.args:
                g_en.append((r_, rx.args[0], cs))
    ok = len(g_en) == 1
    why = "no check that the addressed model is enabled"
    if ok:
        r_, a, cs = g_en[0]
        want = f"{key_txt}[:{key_txt}.find('.arguments')] + '.enabled'"
        others = [(t, pol) for t, pol, raw in cs if not (isinstance(expand(f, raw), ast.Call) and dotted(expand(f, raw).func) == f"{p}.get")]
        has_ok = [(t, pol) for t, pol in others if t in (f"{p}.has({key_txt})", f"{p}.has(key={key_txt})")]
        rest = [x for x in others if x not in has_ok]
        ok = _cat(a) == want and rest == [(f"'pipeline.' in {key_txt}", True)] and all(pol for _, pol in has_ok)
        why = "an argument of a disabled model raises" if ok else f"enabled check looks up {_cat(a)} under {rest}"
    ctx.check(ok, f.qual + "#enabled", why, where=f, node=g_en[0][0] if g_en else lp)
    g_ph = []
    for r_, cs in raises_:
        ts = [(t, pol) for t, pol, _ in cs]
        if any("'_'" in t and t.startswith("any(") and f"{sv}.values" in t and pol for t, pol in ts) and ("isinstance(self.parameter_mode, CustomMode)", False) in ts:
            extra = [(t, pol) for t, pol in ts if not (t.startswith("any(") or "CustomMode" in t or t in (f"{p}.has({key_txt})", f"{p}.has(key={key_txt})") or "'pipeline.' in" in t or f"{p}.get(" in t)]
            if not extra:
                g_ph.append(r_)
    ok = len(g_ph) == 1
    ctx.check(ok, f.qual + "#placeholder", "'_' outside custom mode raises" if ok else "placeholder check changed", where=f, node=g_ph[0] if g_ph else lp)
    for n in loop_exits(lp):
        if isinstance(n, (ast.Break, ast.Return)) or isinstance(n, ast.Continue):
            ctx.fail(f.qual + "#exit", f"{type(n).__name__.lower()} inside the validation loop skips checks", where=f, node=n)


def r5_assignment_is_local(ctx):
    """Processor.set performs exactly one store on any path (obj[att] = v for mappings, else setattr(obj, att, v)) on the resolved (obj, att); the stored value is the given value, literal-converted by eval_entry (strings and elements of sequences) or unchanged."""
    f = ctx.func(f"{PROC}.set")
    g = ctx.cfg(f)
    fs = _final_stores(f)
    nodes = [n for st, *_ in fs for n in g.nodes_of(st)]
    lo, hi = g.count_events(g.entry, [g.exit_return], nodes)
    ctx.check((lo, hi) == (1, 1), f.qual + "#one-store", "exactly one store on every normal path" if (lo, hi) == (1, 1) else f"between {lo} and {hi} stores on a normal path", where=f, node=fs[0][0] if fs else f.node, facts={"min": lo, "max": hi})
    res = stmt_calls(f, ctx.R, {GOA})
    tgt = None
    if res:
        st = enclosing_stmt(res[0])
        if isinstance(st, ast.Assign) and isinstance(st.targets[0], ast.Tuple):
            tgt = [dotted(x) for x in st.targets[0].elts]
    for st, o, a, v in fs:
        ok = tgt is not None and [o, a] == tgt
        ctx.check(ok, f.qual + "#target", "stores on the resolved (obj, att)" if ok else f"stores on ({o}, {a}) instead of the resolved {tgt}", where=f, node=st)
        vn = dotted(v)
        okv = False
        why = f"stored value is {norm(v)}"
        if vn:
            okv = True
            for sn in g.nodes_of(st):
                for d in defs_reaching(g, vn, sn):
                    if d is g.entry:
                        okv = False
                        why = f"`{vn}` may be undefined"
                        continue
                    val = expand(f, getattr(d.ast, "value", None)) if getattr(d.ast, "value", None) is not None else None
                    txt = norm(val)
                    vp = f.params[2]
                    if txt in ("[]", "list()"):
                        # `x = []` filled by an append loop is the comprehension it spells out (sa/astutil.py)
                        from sa.astutil import accumulator_comp

                        comp_ = accumulator_comp(f.node, vn)
                        if isinstance(comp_, ast.ListComp):
                            val, txt = comp_, norm(comp_)
                    good = txt in (vp, f"eval_entry({vp})") or (isinstance(val, ast.ListComp) and norm(val.generators[0].iter) == vp and norm(val.elt) in (f"eval_entry({norm(val.generators[0].target)}) if {norm(val.generators[0].target)} else {norm(val.generators[0].target)}", f"eval_entry({norm(val.generators[0].target)})"))
                    if not good:
                        okv = False
                        why = f"stored value is {txt[:80]}, not the (converted) given value"
        ctx.check(okv, f.qual + "#value", "stores the given value (literal-converted)" if okv else why, where=f, node=st)
    # no other store on self / obj
    for s_, t in stores(f.node, lambda t: isinstance(t, (ast.Attribute, ast.Subscript))):
        if not any(s_ is st for st, *_ in fs):
            ctx.fail(f.qual + "#extra-store", f"additional store {norm(s_)[:70]}", where=f, node=s_)
    for c in calls_in(f.node):
        if call_name(c) in ("setattr", "delattr") and not any(contains(st, c) for st, *_ in fs):
            ctx.fail(f.qual + "#extra-store", f"additional {norm(c)[:70]}", where=f, node=c)
    # get(): plain dotted attribute walk over the same key
    gt = ctx.func(f"{PROC}.get")
    ok = any(norm(val) == f"operator.attrgetter({gt.params[1]})" for _, val in local_defs(gt, "func") if val is not None) and any(norm(r.value) in ("result", "func(self)") for r in returns_of(gt) if r.value is not None)
    ctx.check(ok, gt.qual, "get = attrgetter(key)(self)" if ok else "get() resolves the key differently", where=gt, node=gt.node)


def r6_assignment_does_not_leak_through_copies(ctx):
    """Sweeps, calibration and replace() assign through keys on a deep copy of the processor: the copy hooks (Processor.__deepcopy__, ModelGroup.__deepcopy__) must copy every slot, otherwise assigning a key on one run's processor also changes the caller's configuration and other runs (same obligations as C06.R3, which is where the sharing would originate)."""
    from props.C06 import r3_deepcopy_completeness

    r3_deepcopy_completeness(ctx)


def r7_literal_conversion(ctx):
    """eval_entry: a non-string is returned unchanged; a string is converted with ast.literal_eval only (never eval/exec); it is wrapped in quotes only inside the handler for a failed literal_eval and only when it is not already quoted; the value returned is literal_eval of that text."""
    f = ctx.func("pyxel.evaluator:eval_entry")
    v = f.params[0]
    g = ctx.cfg(f)
    bad = [c for c in calls_in(f.node) if call_name(c) in ("eval", "exec", "compile") or call_name(c).endswith(".eval")]
    ctx.check(not bad, f.qual + "#no-eval", "no eval/exec on user text" if not bad else f"user text is passed to {call_name(bad[0])}", where=f, node=bad[0] if bad else f.node)
    early = [r for r in returns_of(f) if r.value is not None and dotted(r.value) == v]
    # EVERY path that hands the value back untouched must be the non-string path
    ok = bool(early) and all(knows(enclosing_tests(r), f"not isinstance({v}, str)") for r in early)
    ctx.check(ok, f.qual + "#non-str", "non-strings are returned unchanged" if ok else "non-string values are not returned unchanged", where=f, node=early[0] if early else f.node)
    le = [c for c in calls_in(f.node) if call_name(c) in ("literal_eval", "ast.literal_eval") and c.args and dotted(c.args[0]) == v]
    rets = [r for r in returns_of(f) if r.value is not None and r not in early]
    ok = len(le) >= 2 and len(rets) == 1 and norm(expand(f, rets[0].value)) in (f"literal_eval({v})", f"ast.literal_eval({v})")
    ctx.check(ok, f.qual + "#literal", "the result is literal_eval of the (possibly quoted) text" if ok else "the converted value is not literal_eval of the given text", where=f, node=rets[0] if rets else f.node)
    # quoting only in the handler of the probing literal_eval
    quotes = [s_ for s_, val in local_defs(f, v) if val is not None]
    okq = bool(quotes)
    from sa.index import ancestors as _anc

    for s_ in quotes:
        hs = [a for a in _anc(s_) if isinstance(a, ast.ExceptHandler)]
        inh = bool(hs) and hs[0].type is not None and {"SyntaxError", "ValueError"} <= set(norm(hs[0].type).strip("()").replace(" ", "").split(","))
        guarded = any(any(isinstance(c, ast.Constant) and c.value in ("'", '"') for c in ast.walk(expand(f, t))) for t, pol in enclosing_tests(s_))
        val = [val for ss, val in local_defs(f, v) if ss is s_][0]
        shape = norm(val) in (f"'\"' + {v} + '\"'", f'"\'" + {v} + "\'"', f"repr({v})")
        okq = okq and inh and guarded and shape
    ctx.check(okq, f.qual + "#quoting", "text is quoted only after literal_eval failed and only when not already quoted" if okq else "the text is rewritten outside the failed-literal fallback (a valid literal could change meaning)", where=f, node=quotes[0] if quotes else f.node)
    st = ctx.func(f"{PROC}.set")
    uses = [c for c in calls_in(st.node) if call_name(c) == "eval_entry"]
    ok = len(uses) == 2
    ctx.check(ok, st.qual + "#uses-eval-entry", "strings and sequence elements go through eval_entry" if ok else "Processor.set no longer converts through eval_entry", where=st, node=uses[0] if uses else st.node)


def r8_values_reach_their_own_key(ctx):
    """"Assigning through a key changes that setting and nothing else": on the dask path values and keys are paired by position, so the ordered name mapping and the value tuples must list the swept keys in the same (declaration) order (shared with C07.R6)."""
    from props.C07 import r6_names_values_same_order

    r6_names_values_same_order(ctx)


def r9_calibration_values_reach_their_own_key(ctx):
    """In calibration the decision vector is cut into per-key slices by a running offset: every walker advances the offset for EVERY declared variable on every path (shared with C10.R1), otherwise the keys after a skipped one receive their neighbour's values."""
    from props.C10 import r1_slice_walk

    r1_slice_walk(ctx)


def r10_a_swept_key_changes_only_that_setting(ctx):
    """"Assigning through a key changes that setting and nothing else": in sequential sweeps every run's parameter set is the configured defaults with that run's ONE (key, value) laid over them in a fresh mapping - a value assigned for an earlier key must not stay in force for the runs of later keys (shared with C05.R2)."""
    from props.C05 import r2_run_space

    r2_run_space(ctx)


RULES = [r10_a_swept_key_changes_only_that_setting, r9_calibration_values_reach_their_own_key, r8_values_reach_their_own_key, r7_literal_conversion, r6_assignment_does_not_leak_through_copies, r1_arguments_refuse_unknown, r2_set_is_existence_checked, r3_single_resolution_rule, r4_validate_steps, r5_assignment_is_local]
