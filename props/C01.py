"""C01 - enabled models run once per readout, in the fixed physical group order."""

from __future__ import annotations

import ast

from sa.astutil import after_block, precedes  # statement order (never line numbers)

from sa.astutil import (
    stores,
    is_truthy_test,
    knows,
    only_knows,
    loop_exits,
    arg_or_kw,
    call_name,
    calls_in,
    conjuncts,
    contains,
    enclosing_loop,
    enclosing_tests,
    expand,
    is_falsy_test,
    kw,
    local_defs,
    loops_in,
    names_in,
    order_breakers,
    returns_of,
    strip_order_preserving,
)
from sa.index import AnalysisError, ClassInfo, FuncInfo, dotted, norm, walk_local, walk_ordered

EXPLANATION = (
    "Static wiring/ordering analysis of the model-execution spine: the canonical group tuple, "
    "the ten accessor wirings, the group loop of Processor.run_pipeline, the enabled filter and "
    "exactly-once call in ModelGroup, the call shape of ModelFunction.__call__, who-may-call of "
    "the spine and keyword-only construction from YAML."
)
NOT_DECIDED = ["what a user-supplied model function does with its arguments (opaque callee)"]
ASSUMPTIONS = ["`**mapping` binds by name (order-insensitive)"]

CANON = (
    "scene_generation",
    "photon_collection",
    "phasing",
    "charge_generation",
    "charge_collection",
    "charge_transfer",
    "charge_measurement",
    "signal_transfer",
    "readout_electronics",
    "data_processing",
)

PIPE = "pyxel.pipelines.pipeline:DetectionPipeline"
PROC = "pyxel.pipelines.processor:Processor"
GRP = "pyxel.pipelines.model_group:ModelGroup"
MF = "pyxel.pipelines.model_function:ModelFunction"
ARGS = "pyxel.pipelines.model_function:Arguments"


def r1_order_table(ctx):
    """MODEL_GROUPS is exactly the canonical 10-tuple of the property; model_group_names returns it unmodified."""
    ci = ctx.cls(PIPE)
    node = ci.consts.get("MODEL_GROUPS")
    if node is None:
        raise AnalysisError("DetectionPipeline.MODEL_GROUPS not found")
    try:
        val = tuple(ast.literal_eval(node))
    except Exception:
        ctx.fail(f"{PIPE}.MODEL_GROUPS", "MODEL_GROUPS is not a literal tuple", where=ci, node=node)
        return
    pairs_ok = 0
    for i in range(len(CANON)):
        for j in range(i + 1, len(CANON)):
            a, b = CANON[i], CANON[j]
            if a in val and b in val and val.index(a) < val.index(b):
                pairs_ok += 1
    ctx.check(
        val == CANON,
        f"{PIPE}.MODEL_GROUPS",
        "group tuple equals the canonical physical order"
        if val == CANON
        else f"group tuple {val} differs from canonical order {CANON}",
        where=ci,
        node=node,
        facts={"ordered_pairs_ok": pairs_ok, "ordered_pairs": 45, "value": list(val)},
    )
    # every other assignment to MODEL_GROUPS anywhere is a violation
    for m in ctx.repo.modules.values():
        for n in ast.walk(m.tree):
            if isinstance(n, (ast.Assign, ast.AugAssign)):
                tgts = n.targets if isinstance(n, ast.Assign) else [n.target]
                for t in tgts:
                    if isinstance(t, ast.Attribute) and t.attr == "MODEL_GROUPS":
                        ctx.fail(
                            f"{m.name}:MODEL_GROUPS-store",
                            "MODEL_GROUPS is re-assigned outside its definition",
                            where=m,
                            node=n,
                        )
    g = ci.getters.get("model_group_names")
    if g is None:
        raise AnalysisError("DetectionPipeline.model_group_names not found")
    rets = [r for r in returns_of(g) if r.value is not None]
    good = len(rets) == 1 and dotted(expand(g, rets[0].value)) in (
        "self.MODEL_GROUPS",
        "DetectionPipeline.MODEL_GROUPS",
        "type(self).MODEL_GROUPS",
        "self.__class__.MODEL_GROUPS",
    )
    ctx.check(
        good,
        f"{PIPE}.model_group_names",
        "returns MODEL_GROUPS unmodified" if good else "does not return MODEL_GROUPS unmodified",
        where=g,
        node=rets[0] if rets else g.node,
    )
    # iteration sites over MODEL_GROUPS / model_group_names inside the class keep the order
    for f in ci.all_funcs():
        for lp in loops_in(f.node):
            if not isinstance(lp, ast.For):
                continue
            it = expand(f, lp.iter)
            core, _ = strip_order_preserving(it)
            txt = norm(it)
            if "MODEL_GROUPS" in txt or "model_group_names" in txt:
                br = order_breakers(it)
                ok = not br and dotted(core) in ("self.MODEL_GROUPS", "self.model_group_names")
                ctx.check(
                    ok,
                    f"{f.qual}#for",
                    "iterates the group tuple directly"
                    if ok
                    else f"iterates the group tuple through {br or norm(it)}",
                    where=f,
                    node=lp.iter,
                )


def r2_accessor_wiring(ctx):
    """For each group g: __init__ parameter g -> the only store to self._g is built from g alone with name 'g'; property g returns self._g."""
    ci = ctx.cls(PIPE)
    init = ci.methods.get("__init__")
    if init is None:
        raise AnalysisError("DetectionPipeline.__init__ not found")
    params = init.params[1:]
    n = 0
    for g in CANON:
        c = f"{PIPE}.{g}"
        if g not in params:
            ctx.fail(c, f"__init__ has no parameter {g!r}", where=init, node=init.node)
            continue
        sts = [
            (st, t)
            for st in walk_ordered(init.node)
            if isinstance(st, (ast.Assign, ast.AnnAssign))
            for t in ([st.target] if isinstance(st, ast.AnnAssign) else st.targets)
            if isinstance(t, ast.Attribute) and dotted(t) == f"self._{g}"
        ]
        # stores in other methods
        others = []
        for f in ci.all_funcs():
            if f is init:
                continue
            for st in walk_ordered(f.node):
                if isinstance(st, (ast.Assign, ast.AnnAssign, ast.AugAssign)):
                    tg = st.targets if isinstance(st, ast.Assign) else [st.target]
                    for t in tg:
                        if dotted(t) == f"self._{g}":
                            others.append((f, st))
        if len(sts) != 1 or getattr(sts[0][0], "value", None) is None:
            if not sts:
                raise AnalysisError(f"no store to self._{g} in DetectionPipeline.__init__ (unknown construct)")
            ctx.fail(c, f"{len(sts)} stores to self._{g} in __init__ (expected one)", where=init, node=sts[0][0])
            continue
        st = sts[0][0]
        val = expand(init, st.value)
        used_params = names_in(val) & set(params)
        mg_calls = [
            cl
            for cl in calls_in(ast.Expression(val))
            if any(getattr(x, "qual", None) == GRP for x in ctx.R.resolve_call(init, cl))
            or call_name(cl).endswith("ModelGroup")
        ]
        ok = used_params == {g} and len(mg_calls) == 1
        reason = "built from its own parameter only"
        if used_params != {g}:
            reason = f"self._{g} is built from parameter(s) {sorted(used_params)} instead of {g!r}"
        elif len(mg_calls) != 1:
            reason = f"expected one ModelGroup(...) construction, found {len(mg_calls)}"
        else:
            cl = mg_calls[0]
            models = arg_or_kw(cl, 0, "models")
            name = arg_or_kw(cl, 1, "name")
            if models is None or dotted(models) != g:
                ok, reason = False, f"ModelGroup models argument is {norm(models)}, expected {g}"
            elif not (isinstance(name, ast.Constant) and name.value == g):
                ok, reason = False, f"ModelGroup name argument is {norm(name)}, expected {g!r}"
            else:
                # the group must exist whenever the list is non-empty: the only accepted
                # condition is truthiness / not-None of the parameter itself
                tests = [t for t in ast.walk(val) if isinstance(t, ast.IfExp)]
                for t in tests:
                    if names_in(t.test) - {g}:
                        ok, reason = False, f"construction of group {g} depends on {norm(t.test)}"
        if others:
            ok, reason = False, f"self._{g} is also stored in {others[0][0].qual}"
        ctx.check(ok, c + "#store", reason, where=init, node=st)
        getter = ci.getters.get(g)
        if getter is None:
            ctx.fail(c + "#getter", f"no property {g}", where=ci)
            continue
        rets = [r for r in returns_of(getter) if r.value is not None]
        gok = len(rets) == 1 and dotted(expand(getter, rets[0].value)) == f"self._{g}"
        ctx.check(
            gok,
            c + "#getter",
            f"returns self._{g}" if gok else f"property {g} does not return self._{g}",
            where=getter,
            node=rets[0] if rets else getter.node,
        )
        n += 1
    ctx.floor(n, 10)


def _group_loop(ctx, f: FuncInfo):
    run_calls = []
    for cs in ctx.R.call_sites(f):
        if isinstance(cs.node, ast.Call) and any(
            getattr(c, "qual", None) == f"{GRP}.run" for c in cs.callees
        ):
            run_calls.append(cs.node)
    # also calls `.run(` on an untyped receiver derived from getattr(self.pipeline, ...)
    for cl in calls_in(f.node):
        if isinstance(cl.func, ast.Attribute) and cl.func.attr == "run" and cl not in run_calls:
            recv = expand(f, cl.func.value)
            if "getattr(self.pipeline" in norm(recv):
                run_calls.append(cl)
    return run_calls


def r3_group_loop(ctx):
    """Processor.run_pipeline: one loop over pipeline.model_group_names in order; group fetched by getattr with the loop variable; only falsy groups are skipped; otherwise exactly one group.run(detector=self.detector, debug=debug) per iteration; no break/return."""
    f = ctx.func(f"{PROC}.run_pipeline")
    c = f"{PROC}.run_pipeline"
    run_calls = _group_loop(ctx, f)
    if not run_calls:
        ctx.fail(c, "no call to ModelGroup.run found: model groups are never executed", where=f, node=f.node)
        return
    if len(run_calls) != 1:
        ctx.fail(c, f"{len(run_calls)} calls to ModelGroup.run (expected exactly one)", where=f, node=run_calls[1])
        return
    call = run_calls[0]
    loop = enclosing_loop(call)
    if not isinstance(loop, ast.For):
        ctx.fail(c, "ModelGroup.run is not called from a for-loop over the group names", where=f, node=call)
        return
    if enclosing_loop(loop) is not None:
        ctx.fail(c, "group loop is nested in another loop (groups would run more than once)", where=f, node=loop)
        return
    it = expand(f, loop.iter)
    core, wrappers = strip_order_preserving(it)
    br = order_breakers(it)
    src_ok = dotted(core) in ("self.pipeline.model_group_names", "self.pipeline.MODEL_GROUPS")
    ctx.check(
        src_ok and not br,
        c + "#iter",
        "iterates pipeline.model_group_names in order"
        if src_ok and not br
        else f"group loop iterates {norm(it)} (order-breaking: {br})",
        where=f,
        node=loop.iter,
    )
    # loop variable
    tgt = loop.target
    if "enumerate" in wrappers and isinstance(tgt, ast.Tuple) and len(tgt.elts) == 2:
        tgt = tgt.elts[1]
    if not isinstance(tgt, ast.Name):
        raise AnalysisError("group loop target is not a simple name")
    var = tgt.id
    # receiver
    recv = call.func.value if isinstance(call.func, ast.Attribute) else None
    recv_x = expand(f, recv) if recv is not None else None
    recv_ok = (
        isinstance(recv_x, ast.Call)
        and call_name(recv_x) == "getattr"
        and len(recv_x.args) >= 2
        and dotted(recv_x.args[0]) == "self.pipeline"
        and dotted(recv_x.args[1]) == var
    )
    ctx.check(
        recv_ok,
        c + "#group",
        f"group = getattr(self.pipeline, {var})" if recv_ok else f"group object is {norm(recv_x)}, not getattr(self.pipeline, {var})",
        where=f,
        node=call,
    )
    # the variable must not be re-assigned inside the loop
    redefs = [st for st, _ in local_defs(f, var) if st is not loop]
    if redefs:
        ctx.fail(c + "#loopvar", f"loop variable {var} is re-assigned", where=f, node=redefs[0])
    # path counting
    g = ctx.cfg(f)
    header = g.node_of(loop)
    call_nodes = [n for n in g.nodes if n.ast is not None and n.kind == "stmt" and contains(n.ast, call)]
    recv_name = dotted(recv) if recv is not None else None
    skip_nodes = []
    for n in g.nodes:
        if isinstance(n.ast, ast.Continue) and contains(loop, n.ast):
            tests = enclosing_tests(n.ast, stop=loop)
            if (
                len(tests) == 1
                and recv_name
                and ((tests[0][1] and is_falsy_test(tests[0][0], recv_name)) or (not tests[0][1] and is_truthy_test(tests[0][0], recv_name)))
            ):
                skip_nodes.append(n)
            else:
                ctx.fail(c + "#skip", "a group is skipped for a reason other than being absent/empty", where=f, node=enclosing_tests(n.ast, stop=loop)[0][0] if tests else n.ast)
    body = g.loop_body_nodes(header)
    region = body - set(skip_nodes)
    # recompute counts on the body with skip paths removed
    starts = [d for d, k, lab in g.succ[header] if k == "n" and lab == "body"]
    lo, hi = g._count_dag(region, starts, {header}, set(call_nodes), "n")
    # a call guarded by `if group:` is fine too: then lo can be 0 but only via that guard
    guard_tests = enclosing_tests(call, stop=loop)
    guarded_ok = all(
        pol and recv_name and (dotted(t) == recv_name or norm(t) == f"{recv_name} is not None")
        for t, pol in guard_tests
    )
    once = (lo, hi) == (1, 1) or (hi == 1 and lo == 0 and guard_tests and guarded_ok and not skip_nodes)
    ctx.check(
        once,
        c + "#once",
        "exactly one ModelGroup.run per present group per iteration"
        if once
        else f"ModelGroup.run executes between {lo} and {hi} times per iteration for a present group",
        where=f,
        node=call,
        facts={"min": lo, "max": hi, "skip_paths": len(skip_nodes)},
    )
    for n in loop_exits(loop):
        if isinstance(n, (ast.Break, ast.Return)):
            ctx.fail(c + "#exit", f"{type(n).__name__.lower()} inside the group loop ends the pipeline early", where=f, node=n)
    # nothing may leave the function before the loop on a normal path
    for r in returns_of(f):
        if precedes(f, r, loop):
            ctx.fail(c + "#early-return", "return before the group loop", where=f, node=r)
    det = arg_or_kw(call, 0, "detector")
    dbg = arg_or_kw(call, 1, "debug")
    aok = det is not None and dotted(expand(f, det)) == "self.detector" and dbg is not None and dotted(expand(f, dbg)) == "debug"
    ctx.check(
        aok,
        c + "#args",
        "run(detector=self.detector, debug=debug)" if aok else f"run is called with detector={norm(det)}, debug={norm(dbg)}",
        where=f,
        node=call,
    )


def r4_model_loop(ctx):
    """ModelGroup.__iter__ yields exactly the enabled models in list order; ModelGroup.run iterates self and calls model(detector) exactly once per iteration, independent of debug."""
    ci = ctx.cls(GRP)
    it = ci.methods.get("__iter__")
    run = ci.methods.get("run")
    if it is None or run is None:
        raise AnalysisError("ModelGroup.__iter__/run not found")
    c = f"{GRP}.__iter__"
    yields = [n for n in walk_ordered(it.node) if isinstance(n, (ast.Yield, ast.YieldFrom))]
    if not yields:
        # returns an iterator: it must be built, at iteration time, from self.models filtered on .enabled
        rets = [r for r in returns_of(it) if r.value is not None]
        for r in rets:
            v = expand(it, r.value)
            while isinstance(v, ast.Call) and call_name(v) in ("iter", "list", "tuple") and v.args:
                v = v.args[0]
            ok = False
            why = f"__iter__ returns {norm(v)[:80]}: the enabled filter is not evaluated over self.models at iteration time (a stale or unfiltered model list would be executed)"
            if isinstance(v, (ast.GeneratorExp, ast.ListComp)) and len(v.generators) == 1:
                gen = v.generators[0]
                vv = gen.target.id if isinstance(gen.target, ast.Name) else None
                ok = dotted(gen.iter) == "self.models" and dotted(v.elt) == vv and [norm(x) for i in gen.ifs for x in conjuncts(i)] == [f"{vv}.enabled"]
                if ok:
                    why = "returns the enabled models of self.models, evaluated at iteration time"
            elif isinstance(v, ast.Call) and call_name(v) == "filter":
                ok = False
            ctx.check(ok, c, why, where=it, node=r)
        if not rets:
            ctx.fail(c, "__iter__ neither yields nor returns an iterator", where=it, node=it.node)
        # any state kept between iterations defeats the per-readout evaluation of .enabled
        for st in walk_ordered(it.node):
            if isinstance(st, (ast.Assign, ast.AugAssign, ast.AnnAssign)):
                tg = st.targets if isinstance(st, ast.Assign) else [st.target]
                for t in tg:
                    if isinstance(t, ast.Attribute) and dotted(t.value) == "self":
                        ctx.fail(c + "#cache", f"__iter__ stores {norm(t)} on the group: enabled models are remembered across readouts/runs", where=it, node=st)
    for st in walk_ordered(it.node) if yields else []:
        if isinstance(st, (ast.Assign, ast.AugAssign, ast.AnnAssign)):
            tg = st.targets if isinstance(st, ast.Assign) else [st.target]
            for t in tg:
                if isinstance(t, ast.Attribute) and dotted(t.value) == "self":
                    ctx.fail(c + "#cache", f"__iter__ stores {norm(t)} on the group: enabled models are remembered across readouts/runs", where=it, node=st)
    for y in yields:
        if isinstance(y, ast.YieldFrom):
            src = expand(it, y.value)
            ok = False
            # accepted: yield from (m for m in self.models if m.enabled)
            if isinstance(src, ast.GeneratorExp) and len(src.generators) == 1:
                gen = src.generators[0]
                v = gen.target.id if isinstance(gen.target, ast.Name) else None
                ok = (
                    dotted(gen.iter) == "self.models"
                    and dotted(src.elt) == v
                    and any(dotted(cj) == f"{v}.enabled" for i in gen.ifs for cj in conjuncts(i))
                    and all(len(_disj(i)) == 1 for i in gen.ifs)
                )
            ctx.check(ok, c, "yields enabled models" if ok else f"yield from {norm(src)} does not filter on .enabled", where=it, node=y)
            continue
        loop = enclosing_loop(y)
        if not isinstance(loop, ast.For) or not isinstance(loop.target, ast.Name):
            raise AnalysisError("ModelGroup.__iter__: yield outside a simple for-loop")
        v = loop.target.id
        itx = expand(it, loop.iter)
        core, _ = strip_order_preserving(itx)
        br = order_breakers(itx)
        ok_iter = dotted(core) == "self.models" and not br
        ctx.check(ok_iter, c + "#iter", "iterates self.models in list order" if ok_iter else f"iterates {norm(itx)}", where=it, node=loop.iter)
        ok_val = y.value is not None and dotted(y.value) == v
        ctx.check(ok_val, c + "#value", "yields the loop variable" if ok_val else f"yields {norm(y.value)}", where=it, node=y)
        tests = enclosing_tests(y, stop=loop)
        enabled = False
        extra = []
        for t, pol in tests:
            cj = conjuncts(t) if pol else [t]
            for x in cj:
                if pol and dotted(x) == f"{v}.enabled":
                    enabled = True
                else:
                    extra.append((norm(x), pol))
        ok = enabled and not extra
        if not enabled:
            why = "disabled models are yielded (no `if model.enabled` guard, or the guard is weakened)"
        elif extra:
            why = f"enabled models are additionally filtered by {extra}"
        else:
            why = "yield guarded by model.enabled only"
        ctx.check(ok, c + "#guard", why, where=it, node=tests[0][0] if tests else y)
    # number of yields per iteration for an enabled model: exactly one
    g = ctx.cfg(it)
    for lp in [l for l in loops_in(it.node) if isinstance(l, ast.For)]:
        ynodes = [n for n in g.nodes if n.ast is not None and n.kind == "stmt" and any(isinstance(x, (ast.Yield,)) for x in ast.walk(n.ast))]
        if ynodes:
            lo, hi = g.count_events_per_iteration(g.node_of(lp), ynodes)
            ctx.check(hi <= 1, c + "#once", f"at most one yield per model (max {hi})", where=it, node=lp)

    # ---- run
    c = f"{GRP}.run"
    loops = [l for l in loops_in(run.node) if isinstance(l, ast.For) and enclosing_loop(l) is None]
    model_calls = []
    for lp in loops:
        if not isinstance(lp.target, ast.Name):
            continue
        v = lp.target.id
        for cl in calls_in(lp):
            if isinstance(cl.func, ast.Name) and cl.func.id == v:
                model_calls.append((lp, v, cl))
            elif isinstance(cl.func, ast.Attribute) and dotted(cl.func) in (f"{v}.__call__", f"{v}.func", f"{v}._func"):
                model_calls.append((lp, v, cl))
    if not model_calls:
        ctx.fail(c, "no call of the model inside a loop: models are never executed", where=run, node=run.node)
        return
    loops_used = {id(lp) for lp, _, _ in model_calls}
    if len(loops_used) != 1:
        ctx.fail(c, "models are called from more than one loop", where=run, node=model_calls[-1][2])
        return
    lp, v, _ = model_calls[0]
    itx = expand(run, lp.iter)
    core, _ = strip_order_preserving(itx)
    br = order_breakers(itx)
    iter_self = dotted(core) == "self" or norm(core) in ("self.__iter__()",)
    iter_models = dotted(core) == "self.models"
    g = ctx.cfg(run)
    header = g.node_of(lp)
    if iter_self and not br:
        ctx.ok(c + "#iter", "iterates self (the enabled models, in list order)", where=run, node=lp.iter)
    elif iter_models and not br:
        # then every call must be guarded by model.enabled
        allg = True
        for _, _, cl in model_calls:
            ts = enclosing_tests(cl, stop=lp)
            if not any(pol and any(dotted(x) == f"{v}.enabled" for x in conjuncts(t)) for t, pol in ts):
                allg = False
        ctx.check(allg, c + "#iter", "iterates self.models with an enabled guard" if allg else "iterates self.models: disabled models are executed", where=run, node=lp.iter)
    else:
        ctx.fail(c + "#iter", f"model loop iterates {norm(itx)} {br}", where=run, node=lp.iter)
    # exactly one direct call model(detector) per iteration for an enabled model, none for a disabled
    # one - decided per path through one iteration (sa/paths.py)
    from sa.paths import enumerate_paths

    direct = [cl for _, _, cl in model_calls if isinstance(cl.func, ast.Name)]
    indirect = [cl for _, _, cl in model_calls if not isinstance(cl.func, ast.Name)]
    for cl in indirect:
        ctx.fail(c + "#bypass", f"model function invoked through {norm(cl.func)} bypassing ModelFunction.__call__", where=run, node=cl)
    lo = hi = None
    for q in enumerate_paths(lp.body):
        if q.exit == "raise":
            continue
        ncalls = len(q.called(v))
        en = q.holds(f"{v}.enabled")
        want = 1 if (iter_self or en is True) else 0
        if iter_models and en is None:
            want = -1  # neither branch of an enabled test: the model runs whether enabled or not
        lo = ncalls if lo is None else min(lo, ncalls)
        hi = ncalls if hi is None else max(hi, ncalls)
        if q.exit in ("break", "return"):
            ctx.fail(c + "#exit", f"{q.exit} in the model loop ends the group early (path {q.cond_texts()})", where=run, node=q.exit_node)
        if ncalls != want:
            ctx.fail(c + "#once", f"model(detector) executes {ncalls} time(s) on the path {q.cond_texts()} (expected {max(want, 0)}{' - no enabled test on this path' if want < 0 else ''})", where=run, node=q.exit_node or (direct[0] if direct else lp), facts={"calls": ncalls})
    ctx.check(hi == 1 and (lo == 1 or iter_models), c + "#once", "model(detector) executes exactly once per enabled model" if hi == 1 else f"model(detector) executes between {lo} and {hi} times per model", where=run, node=direct[0] if direct else lp, facts={"min": lo, "max": hi})
    for cl in direct:
        ts = enclosing_tests(cl, stop=lp)
        dep = [norm(t) for t, _ in ts if "debug" in names_in(t)]
        if dep:
            ctx.fail(c + "#debug-dep", f"model call is control-dependent on debug ({dep})", where=run, node=cl)
        a0 = cl.args[0] if cl.args else kw(cl, "detector")
        aok = a0 is not None and dotted(expand(run, a0)) == "detector" and len(cl.args) + len(cl.keywords) == 1
        ctx.check(aok, c + "#arg", "model(detector)" if aok else f"model called as {norm(cl)}", where=run, node=cl)


def _disj(t):
    from sa.astutil import disjuncts

    return disjuncts(t)


def r5_call_shape(ctx):
    """ModelFunction.__call__ makes exactly one call self.func(detector, **self.arguments); arguments -> _arguments -> Arguments(arguments) -> dict(input), exposed unfiltered."""
    ci = ctx.cls(MF)
    call = ci.methods.get("__call__")
    if call is None:
        raise AnalysisError("ModelFunction.__call__ not found")
    c = f"{MF}.__call__"
    det = call.params[1] if len(call.params) > 1 else "detector"
    fcalls = [cl for cl in calls_in(call.node) if dotted(expand(call, cl.func)) in ("self.func", "self._func")]
    if len(fcalls) != 1:
        ctx.fail(c, f"{len(fcalls)} invocations of the model function (expected exactly one)", where=call, node=fcalls[1] if len(fcalls) > 1 else call.node)
        return
    cl = fcalls[0]
    g = ctx.cfg(call)
    ev = [n for n in g.nodes if n.ast is not None and n.kind == "stmt" and contains(n.ast, cl)]
    lo, hi = g.count_events(g.entry, [g.exit_return], ev)
    ctx.check((lo, hi) == (1, 1), c + "#once", f"self.func(...) executed exactly once on every normal path (min {lo}, max {hi})", where=call, node=cl)
    pos_ok = len(cl.args) == 1 and dotted(expand(call, cl.args[0])) == det
    star = [k for k in cl.keywords if k.arg is None]
    named = [k for k in cl.keywords if k.arg is not None]
    kw_ok = len(star) == 1 and dotted(expand(call, star[0].value)) in ("self.arguments", "self._arguments") and not named
    ctx.check(
        pos_ok and kw_ok,
        c + "#shape",
        "func(detector, **self.arguments)" if pos_ok and kw_ok else f"model function is called as {norm(cl)}",
        where=call,
        node=cl,
    )
    if dotted(expand(call, cl.func)) == "self.func":
        fg = ci.getters.get("func")
        if fg is None:
            raise AnalysisError("ModelFunction.func not found")
        rets = [r for r in returns_of(fg) if r.value is not None]
        ok = bool(rets) and all(dotted(r.value) == "self._func" for r in rets)
        sts = [st for st in walk_ordered(fg.node) if isinstance(st, ast.Assign) and any(dotted(t) == "self._func" for t in st.targets)]
        ok2 = all(
            isinstance(st.value, ast.Call) and call_name(st.value).endswith("evaluate_reference") and st.value.args and dotted(st.value.args[0]) == "self._func_name"
            for st in sts
        )
        ctx.check(ok and ok2, f"{MF}.func", "func resolves self._func_name once and returns it" if ok and ok2 else "ModelFunction.func does not return the function named by the configuration", where=fg, node=rets[0] if rets else fg.node)
    # arguments getter
    ag = ci.getters.get("arguments")
    if ag is None:
        raise AnalysisError("ModelFunction.arguments not found")
    rets = [r for r in returns_of(ag) if r.value is not None]
    ok = len(rets) == 1 and dotted(rets[0].value) == "self._arguments"
    ctx.check(ok, f"{MF}.arguments", "returns self._arguments" if ok else "arguments property does not return self._arguments", where=ag, node=rets[0] if rets else ag.node)
    init = ci.methods["__init__"]
    sts = [st for st in walk_ordered(init.node) if isinstance(st, (ast.Assign, ast.AnnAssign)) and any(dotted(t) == "self._arguments" for t in (st.targets if isinstance(st, ast.Assign) else [st.target]))]
    ok = len(sts) == 1 and isinstance(sts[0].value, ast.Call) and call_name(sts[0].value).endswith("Arguments") and sts[0].value.args and dotted(sts[0].value.args[0]) == "arguments"
    ctx.check(ok, f"{MF}.__init__#arguments", "self._arguments = Arguments(arguments)" if ok else "configured arguments are not stored as given", where=init, node=sts[0] if sts else init.node)
    # 'arguments' parameter may only be replaced by {} when None
    for st, val in local_defs(init, "arguments"):
        tests = enclosing_tests(st)
        okd = isinstance(val, ast.Dict) and not val.keys and (only_knows(tests, "arguments is None") or only_knows(tests, "not arguments"))
        ctx.check(okd, f"{MF}.__init__#default", "arguments defaulted to {} only when None" if okd else f"configured arguments are rewritten: {norm(st)}", where=init, node=st)
    st_en = [st for st in walk_ordered(init.node) if isinstance(st, (ast.Assign, ast.AnnAssign)) and any(dotted(t) in ("self.enabled", "self._enabled") for t in (st.targets if isinstance(st, ast.Assign) else [st.target]))]
    ok = len(st_en) == 1 and dotted(st_en[0].value) == "enabled"
    ctx.check(ok, f"{MF}.__init__#enabled", "self.enabled = enabled" if ok else "enabled flag is not stored as configured", where=init, node=st_en[0] if st_en else init.node)
    # Arguments container
    ai = ctx.cls(ARGS)
    ainit = ai.methods["__init__"]
    p = ainit.params[1]
    sts = [st for st in walk_ordered(ainit.node) if isinstance(st, (ast.Assign, ast.AnnAssign)) and any(dotted(t) == "self._arguments" for t in (st.targets if isinstance(st, ast.Assign) else [st.target]))]
    ok = len(sts) == 1 and norm(sts[0].value) in (f"dict({p})", p, f"{p}.copy()", f"{{**{p}}}")
    ctx.check(ok, f"{ARGS}.__init__", "stores a plain copy of the input mapping" if ok else f"Arguments stores {norm(sts[0].value) if sts else '?'}", where=ainit, node=sts[0] if sts else ainit.node)
    exp = {"__iter__": "iter(self._arguments)", "__len__": "len(self._arguments)"}
    for m, want in exp.items():
        fm = ai.methods.get(m)
        if fm is None:
            raise AnalysisError(f"Arguments.{m} not found")
        rets = [r for r in returns_of(fm) if r.value is not None]
        ok = len(rets) == 1 and norm(rets[0].value) == want
        ctx.check(ok, f"{ARGS}.{m}", f"returns {want}" if ok else f"Arguments.{m} returns {norm(rets[0].value) if rets else None}", where=fm, node=rets[0] if rets else fm.node)
    gi = ai.methods.get("__getitem__")
    if gi is None:
        raise AnalysisError("Arguments.__getitem__ not found")
    k = gi.params[1]
    rets = [r for r in returns_of(gi) if r.value is not None]
    ok = bool(rets) and all(norm(r.value) == f"self._arguments[{k}]" for r in rets)
    ctx.check(ok, f"{ARGS}.__getitem__", "returns self._arguments[key]" if ok else "Arguments.__getitem__ does not return the stored value", where=gi, node=rets[0] if rets else gi.node)


ALLOWED_CALLERS = {
    f"{GRP}.run": {f"{PROC}.run_pipeline": "the group loop (C01.R3)"},
    f"{MF}.__call__": {
        f"{GRP}.run": "the model loop (C01.R4)",
        "pyxel.util.timing:time_pipeline": "stand-alone profiling helper, not used by any running mode",
    },
    f"{PROC}.run_pipeline": {
        "pyxel.exposure.exposure:run_pipeline": "the step loop (C02)",
        "pyxel.exposure.exposure:_run_exposure_pipeline_deprecated": "deprecated twin of the step loop",
    },
}


def r6_who_may_call(ctx):
    """Only the spine calls the spine: ModelGroup.run <- Processor.run_pipeline; ModelFunction.__call__ <- ModelGroup.run (+ timing helper); Processor.run_pipeline <- the step loops; all running modes reach models only through it."""
    for target, allowed in ALLOWED_CALLERS.items():
        ctx.func(target)
        callers = ctx.R.callers(target)
        for q in sorted(callers):
            f = ctx.repo.funcs[q]
            ok = q in allowed
            sites = [cs for cs in ctx.R.sites_calling(target) if cs.caller.qual == q]
            ctx.check(
                ok,
                f"{target}<-{q}",
                allowed.get(q, "") if ok else f"{q} calls {target} outside the execution spine",
                where=f,
                node=sites[0].node if sites else f.node,
            )
        for q in allowed:
            if q not in callers and q in ctx.repo.funcs and "deprecated" not in q and "timing" not in q:
                ctx.fail(f"{target}<-{q}", f"{q} no longer calls {target}", where=ctx.repo.funcs[q], node=ctx.repo.funcs[q].node)
    # direct invocation of the wrapped function (model.func(...)) outside ModelFunction.__call__
    n = 0
    for f in ctx.repo.all_functions():
        for cl in calls_in(f.node):
            if isinstance(cl.func, ast.Attribute) and cl.func.attr in ("func", "_func"):
                t = ctx.R.expr_type(f, cl.func.value)
                if MF in t.classes:
                    n += 1
                    ok = f.qual == f"{MF}.__call__"
                    ctx.check(ok, f"{f.qual}#func-call", "the one place the model function is invoked" if ok else "model function invoked directly, bypassing ModelFunction.__call__", where=f, node=cl)
    # reachability: run_mode reaches ModelFunction.__call__
    reach = ctx.R.reachable_from(["pyxel.run:run_mode"])
    ok = f"{MF}.__call__" in reach and f"{PROC}.run_pipeline" in reach
    ctx.check(ok, "pyxel.run:run_mode~>ModelFunction.__call__", "run_mode reaches the models through Processor.run_pipeline" if ok else "call graph from run_mode no longer reaches ModelFunction.__call__ (resolver lost the spine)", where=ctx.func("pyxel.run:run_mode"))


def r7_yaml_equivalence(ctx):
    """to_pipeline ends in DetectionPipeline(**dct) and to_model_function in ModelFunction(**dct): keyword binding, so YAML key order cannot decide which list reaches which group."""
    tp = ctx.func("pyxel.configuration.configuration:to_pipeline")
    tm = ctx.func("pyxel.configuration.configuration:to_model_function")
    for f, clsname in ((tp, "DetectionPipeline"), (tm, "ModelFunction")):
        rets = [r for r in returns_of(f) if r.value is not None]
        ok = False
        p = f.params[0]
        if len(rets) == 1 and isinstance(rets[0].value, ast.Call):
            cl = rets[0].value
            star = [k for k in cl.keywords if k.arg is None]
            ok = call_name(cl).endswith(clsname) and not cl.args and len(star) == 1 and dotted(star[0].value) == p and len(cl.keywords) == 1
        ctx.check(ok, f.qual, f"returns {clsname}(**{p})" if ok else f"does not construct {clsname} by keywords from the mapping", where=f, node=rets[0] if rets else f.node)
    # to_model_function hands the YAML mapping over as it is (an explicit `null` argument stays None)
    for st_, t_ in stores(tm.node, lambda t_: isinstance(t_, ast.Subscript) and dotted(t_.value) == tm.params[0]):
        ctx.fail(tm.qual + "#rewrite", f"the model mapping is rewritten before the ModelFunction is built: {norm(st_)[:70]} (arguments written in the file no longer reach the model as written)", where=tm, node=st_)
    for st_, v_ in local_defs(tm, tm.params[0]):
        ctx.fail(tm.qual + "#rewrite", f"the model mapping is replaced before the ModelFunction is built: `{norm(st_)[:70]}` (arguments written in the file reach the model converted / filtered, a pipeline built from Python objects gets them as given)", where=tm, node=st_)
    for c_ in calls_in(tm.node):
        if isinstance(c_.func, ast.Attribute) and dotted(c_.func.value) == tm.params[0] and c_.func.attr in ("pop", "update", "setdefault", "clear", "popitem", "__setitem__", "__delitem__"):
            ctx.fail(tm.qual + "#rewrite", f"the model mapping is modified ({norm(c_)[:60]}) before the ModelFunction is built", where=tm, node=c_)
    # the per-key rewrite in to_pipeline stores under the key it read
    p = tp.params[0]
    for lp in loops_in(tp.node):
        if isinstance(lp, ast.For) and isinstance(lp.target, ast.Name) and dotted(lp.iter) in (p, f"{p}.keys()", f"list({p})"):
            k = lp.target.id
            for st in walk_ordered(lp):
                if isinstance(st, ast.Assign) and isinstance(st.targets[0], ast.Subscript) and dotted(st.targets[0].value) == p:
                    key_ok = dotted(st.targets[0].slice) == k
                    val = expand(tp, st.value)
                    reads = [s for s in ast.walk(val) if isinstance(s, ast.Subscript) and dotted(s.value) == p]
                    src_ok = all(dotted(s.slice) == k for s in reads)
                    # models built in list order
                    comp = [c for c in ast.walk(val) if isinstance(c, ast.ListComp)]
                    order_ok = not order_breakers(val)
                    ctx.check(key_ok and src_ok and order_ok, f"{tp.qual}#rewrite", "each group's models are built from its own entry, in list order" if key_ok and src_ok and order_ok else f"group entry rewritten from another key or reordered: {norm(st)}", where=tp, node=st)


def r8_arguments_not_shared_between_copies(ctx):
    """"Exactly the arguments configured for it": a model's arguments must not be reachable from another run's copy - the copy hooks on the path Processor -> pipeline -> ModelGroup -> ModelFunction -> Arguments are the reviewed deep copies only (shared with C06.R3)."""
    from props.C06 import r3_deepcopy_completeness

    r3_deepcopy_completeness(ctx)


def r9_arguments_changed_only_through_their_own_key(ctx):
    """"Exactly the arguments configured for it": a parameter applied through a key reaches the argument that key addresses and nothing else - Processor.set performs one store on the object resolved from the complete key (shared with C08.R5)."""
    from props.C08 import r5_assignment_is_local

    r5_assignment_is_local(ctx)


RULES = [r9_arguments_changed_only_through_their_own_key, r8_arguments_not_shared_between_copies, r1_order_table, r2_accessor_wiring, r3_group_loop, r4_model_loop, r5_call_shape, r6_who_may_call, r7_yaml_equivalence]
