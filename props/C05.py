"""C05 - observation runs exactly the requested parameter space, correctly labelled."""

from __future__ import annotations

import ast

from sa.astutil import (
    alpha,
    seq_len,
    fuse_comprehensions,
    arg_or_kw,
    call_name,
    calls_in,
    conjuncts,
    contains,
    enclosing_loop,
    enclosing_tests,
    expand,
    kw,
    local_defs,
    loops_in,
    names_in,
    order_breakers,
    raising_ifs,
    returns_of,
    stmt_calls,
    stores,
    strip_order_preserving,
)
from sa.index import AnalysisError, dotted, enclosing_stmt, norm, walk_ordered
from sa.poly import to_poly

EXPLANATION = (
    "Sibling/wiring analysis of the run-space enumerators (enabled filter identical in all modes, "
    "Cartesian product of indices and of values over the same ordered step list, sequential chain "
    "merged over defaults, custom column cursor advancing by exactly the width it read), of the "
    "entry -> new processor -> label wiring (applied values and coordinate labels come from the "
    "same ParameterEntry), of the short-name collision handling and of every zip pairing on the "
    "observation path, and of validation dominating the runs."
)
NOT_DECIDED = ["that selecting a label in the merged xarray object returns that run's data (xarray semantics)", "evaluation of numpy expression strings"]
ASSUMPTIONS = ["itertools.product / pd.MultiIndex.from_product enumerate the Cartesian product in argument order, last factor fastest"]

M = "pyxel.observation.misc"
O = "pyxel.observation.observation"
OD = "pyxel.observation.observation_dask"
MODES = ("ProductMode", "SequentialMode", "CustomMode")


def _is_enabled_filter(f, e: ast.expr, src: str) -> tuple[bool, str]:
    e = expand(f, e)
    if isinstance(e, ast.Call) and call_name(e) in ("list", "tuple") and e.args:
        e = e.args[0]
    if isinstance(e, (ast.ListComp, ast.GeneratorExp)) and len(e.generators) == 1:
        g = e.generators[0]
        v = g.target.id if isinstance(g.target, ast.Name) else None
        if dotted(g.iter) != src or order_breakers(g.iter):
            return False, f"filters {norm(g.iter)} instead of {src}"
        if dotted(e.elt) != v:
            return False, f"maps steps to {norm(e.elt)}"
        conds = [norm(c) for i in g.ifs for c in conjuncts(i)]
        if conds != [f"{v}.enabled"]:
            return False, f"filter condition is {conds or 'absent'} instead of [{v}.enabled]"
        return True, f"[step for step in {src} if step.enabled]"
    return False, f"not an order-preserving enabled filter: {norm(e)[:80]}"


def r1_enabled_filter(ctx):
    """All three modes (and CustomMode.build) select exactly the enabled steps of `parameters`, in declaration order."""
    n = 0
    for m in MODES:
        ci = ctx.cls(f"{M}:{m}")
        g = ci.getters.get("enabled_steps")
        if g is None:
            raise AnalysisError(f"{m}.enabled_steps not found")
        rets = [r for r in returns_of(g) if r.value is not None]
        ok, why = (False, "no single return") if len(rets) != 1 else _is_enabled_filter(g, rets[0].value, "self.parameters")
        ctx.check(ok, g.qual, why, where=g, node=rets[0] if rets else g.node)
        n += 1
    b = ctx.func(f"{M}:CustomMode.build")
    defs = local_defs(b, "enabled_steps")
    ok, why = (False, "enabled_steps not computed") if len(defs) != 1 or defs[0][1] is None else _is_enabled_filter(b, defs[0][1], "parameters")
    ctx.check(ok, b.qual + "#enabled", why, where=b, node=defs[0][0] if defs else b.node)
    # the mode objects are built from the declared parameter list itself: nothing may be dropped,
    # merged or reordered between the configuration and the mode that filters the enabled ones
    bp = ctx.func("pyxel.observation.observation:build_parameter_mode")
    n_b = 0
    for cl in calls_in(bp.node):
        cn = call_name(cl)
        if cn.split(".")[0] not in MODES:
            continue
        a = arg_or_kw(cl, 0, "parameters")
        v = expand(bp, a) if a is not None else None
        while isinstance(v, ast.Call) and call_name(v) in ("list", "tuple") and len(v.args) == 1 and not v.keywords:
            v = expand(bp, v.args[0])
        ok = v is not None and dotted(v) == "parameters"
        ctx.check(ok, f"{bp.qual}#declared-list:{cn}", f"{cn} receives the declared parameters" if ok else f"{cn} is built from {norm(v)[:80] if v is not None else None} instead of the declared parameter list (declarations are dropped / merged before the enabled ones are selected)", where=bp, node=cl)
        n_b += 1
    ctx.floor(n + 1 + n_b, 7)


def _star_arg(call: ast.Call):
    if len(call.args) == 1 and isinstance(call.args[0], ast.Starred) and not [k for k in call.keywords if k.arg not in ("strict",)]:
        return call.args[0].value
    return None


def r2_run_space(ctx):
    """Product: itertools.product over the enabled steps in list order for both the index tuple and the value tuple (same operand list, hence position-aligned), keys zipped in the same order, fresh dict per combination. Sequential: one single-key dict per (step, value) in order, merged OVER the defaults read before any run. Entries carry (index, parameters, run_index) from the matching tuple components."""
    pi = ctx.func(f"{M}:ProductMode._product_indices")
    rets = [r for r in returns_of(pi) if r.value is not None]
    ok, why = False, "unrecognised"
    if len(rets) == 1:
        v = fuse_comprehensions(expand(pi, rets[0].value))
        why = f"returns {norm(v)[:90]}"
        if isinstance(v, ast.Call) and call_name(v) in ("itertools.product", "product"):
            sa = _star_arg(v)
            if isinstance(sa, (ast.ListComp, ast.GeneratorExp)) and len(sa.generators) == 1:
                g = sa.generators[0]
                var = g.target.id if isinstance(g.target, ast.Name) else None
                ok = dotted(g.iter) == "self.enabled_steps" and not g.ifs and norm(sa.elt) == f"range(len({var}))"
    ctx.check(ok, pi.qual, "product(*[range(len(step)) for step in enabled_steps])" if ok else why, where=pi, node=rets[0] if rets else pi.node)
    ctx.trust("itertools.product enumerates the Cartesian product in argument order, last factor fastest")

    pp = ctx.func(f"{M}:ProductMode._product_parameters")
    outer = [l for l in loops_in(pp.node) if isinstance(l, ast.For) and enclosing_loop(l) is None]
    if len(outer) != 1:
        raise AnalysisError("_product_parameters: expected one outer loop")
    lp = outer[0]
    it = expand(pp, lp.iter)
    ok, why = False, f"iterates {norm(it)[:100]}"
    if isinstance(it, ast.Call) and call_name(it) == "zip" and len(it.args) == 2:
        a, b = it.args
        a_ok = isinstance(a, ast.Call) and dotted(a.func) == "self._product_indices" and not a.args
        b_ok = isinstance(b, ast.Call) and call_name(b) in ("itertools.product", "product") and _star_arg(b) is not None and dotted(_star_arg(b)) == "self.enabled_steps"
        ok = a_ok and b_ok
    ctx.check(ok, pp.qual + "#zip", "zip(self._product_indices(), product(*self.enabled_steps)): indices and values enumerate the same ordered step list" if ok else why, where=pp, node=lp.iter)
    if not (isinstance(lp.target, ast.Tuple) and len(lp.target.elts) == 2 and all(isinstance(x, ast.Name) for x in lp.target.elts)):
        raise AnalysisError("_product_parameters: loop target is not (indices, params)")
    v_idx, v_par = (x.id for x in lp.target.elts)
    # what is yielded: (indices, {key: value for key, value in zip(keys, values)}) - whether the
    # dict is filled by an inner loop or built by dict(zip(..)) is the same thing (canonical form)
    ys = [n for n in walk_ordered(lp) if isinstance(n, ast.Yield)]
    ok = len(ys) == 1 and isinstance(ys[0].value, ast.Tuple) and len(ys[0].value.elts) == 2 and dotted(ys[0].value.elts[0]) == v_idx and enclosing_loop(ys[0]) is lp and not enclosing_tests(ys[0], stop=lp)
    ctx.check(ok, pp.qual + "#yield", "yields (indices, parameter_dict) once per combination" if ok else "does not yield (indices, parameter_dict) once per combination", where=pp, node=ys[0] if ys else lp)
    if ok:
        dexpr = ys[0].value.elts[1]
        dict_var = dotted(dexpr)
        d = fuse_comprehensions(expand(pp, dexpr))
        pok, why = False, f"parameter dict is {norm(d)[:90]}: not a pairing of keys with the value tuple"
        if isinstance(d, ast.DictComp) and len(d.generators) == 1 and not d.generators[0].ifs:
            gen = d.generators[0]
            z = gen.iter
            if isinstance(z, ast.Call) and call_name(z) == "zip" and len(z.args) == 2 and isinstance(gen.target, ast.Tuple) and len(gen.target.elts) == 2:
                kv, vv = (x.id if isinstance(x, ast.Name) else None for x in gen.target.elts)
                ka, va = fuse_comprehensions(expand(pp, z.args[0])), z.args[1]
                keys_ok = isinstance(ka, ast.ListComp) and len(ka.generators) == 1 and dotted(expand(pp, ka.generators[0].iter)) == "self.enabled_steps" and not ka.generators[0].ifs and isinstance(ka.generators[0].target, ast.Name) and norm(ka.elt) == f"{ka.generators[0].target.id}.key"
                vals_ok = dotted(va) == v_par
                st_ok = dotted(d.key) == kv and dotted(d.value) == vv
                pok = keys_ok and vals_ok and st_ok
                why = "keys [step.key for step in enabled_steps] zipped with the value tuple" if pok else f"key/value pairing is zip({norm(ka)[:50]}, {norm(va)[:30]}) -> {{{norm(d.key)}: {norm(d.value)}}}"
        ctx.check(pok, pp.qual + "#pairing", why, where=pp, node=dexpr)
        if dict_var:
            defs = local_defs(pp, dict_var)
            fresh = bool(defs) and all(contains(lp, st) for st, _ in defs)
            ctx.check(fresh, pp.qual + "#fresh-dict", "a fresh dict per combination" if fresh else f"`{dict_var}` is shared between combinations (all runs see the last values)", where=pp, node=defs[0][0] if defs else lp)

    # entries
    def entry_check(fq, producer, cls_name):
        f = ctx.func(fq)
        rets = [r for r in returns_of(f) if r.value is not None]
        ok, why = False, "unrecognised"
        rv = fuse_comprehensions(expand(f, rets[0].value)) if len(rets) == 1 else None
        if isinstance(rv, ast.ListComp) and len(rv.generators) == 1:
            lc = rv
            g = lc.generators[0]
            itx = expand(f, g.iter)
            shape = isinstance(itx, ast.Call) and call_name(itx) == "enumerate" and len(itx.args) == 1 and not itx.keywords and isinstance(itx.args[0], ast.Call) and dotted(itx.args[0].func) == f"self.{producer}" and not g.ifs
            tg = g.target
            if shape and isinstance(tg, ast.Tuple) and len(tg.elts) == 2 and isinstance(tg.elts[1], ast.Tuple) and len(tg.elts[1].elts) == 2:
                vn = dotted(tg.elts[0])
                vi, vp = (dotted(x) for x in tg.elts[1].elts)
                e = lc.elt
                if isinstance(e, ast.Call) and call_name(e) == cls_name:
                    a_i, a_p, a_r = kw(e, "index"), kw(e, "parameters"), kw(e, "run_index")
                    ok = a_i is not None and dotted(a_i) == vi and a_r is not None and dotted(a_r) == vn and a_p is not None
                    why = ""
                    if ok and cls_name == "ParameterEntry":
                        ok = dotted(a_p) == vp
                    elif ok and producer == "_sequential_parameters":
                        # {**defaults, **parameter_dict}: the run's value must override the default
                        ok = isinstance(a_p, ast.Dict) and all(k is None for k in a_p.keys) and len(a_p.values) == 2 and dotted(a_p.values[1]) == vp
                        if ok:
                            dflt = expand(f, a_p.values[0])
                            ok = isinstance(dflt, ast.DictComp) and "processor.get" in norm(dflt.value)
                        why = "" if ok else f"parameters={norm(a_p)[:80]}: defaults must come first and be read with processor.get"
                    elif ok:
                        ok = dotted(a_p) == vp
                    if not ok and not why:
                        why = f"entry built as {norm(e)[:100]}"
            else:
                why = f"iterates {norm(itx)[:80]}"
        ctx.check(ok, fq, "entries carry (index, parameters, run_index) of the same enumerated item" if ok else why, where=f, node=rets[0] if rets else f.node)

    entry_check(f"{M}:ProductMode.get_parameters_item", "_product_parameters", "ParameterEntry")
    entry_check(f"{M}:SequentialMode.get_parameters_item", "_sequential_parameters", "CustomParameterEntry")
    entry_check(f"{M}:CustomMode.get_parameters_item", "_custom_parameters", "CustomParameterEntry")

    sp = ctx.func(f"{M}:SequentialMode._sequential_parameters")
    outer = [l for l in loops_in(sp.node) if isinstance(l, ast.For) and enclosing_loop(l) is None]
    ok, why = False, "unrecognised loop nest"
    if len(outer) == 1 and dotted(expand(sp, outer[0].iter)) == "self.enabled_steps" and isinstance(outer[0].target, ast.Name):
        sv = outer[0].target.id
        inner = [l for l in loops_in(outer[0]) if l is not outer[0]]
        if len(inner) == 1 and isinstance(inner[0], ast.For) and dotted(expand(sp, inner[0].iter)) == sv and isinstance(inner[0].target, ast.Name):
            vv = inner[0].target.id
            ys = [n for n in walk_ordered(inner[0]) if isinstance(n, ast.Yield)]
            if len(ys) == 1 and isinstance(ys[0].value, ast.Tuple) and len(ys[0].value.elts) == 2:
                d = expand(sp, ys[0].value.elts[1])
                ok = isinstance(d, ast.Dict) and len(d.keys) == 1 and dotted(expand(sp, d.keys[0])) == f"{sv}.key" and dotted(d.values[0]) == vv and not enclosing_tests(ys[0], stop=outer[0])
                why = "one {step.key: value} per value, steps then values in order" if ok else f"yields {norm(d)[:60]}"
    ctx.check(ok, sp.qual, why, where=sp, node=outer[0] if outer else sp.node)


def r3_column_cursor(ctx):
    """CustomMode._custom_parameters: cursor reset to 0 for every row, every enabled step reads row[i] or row[i:i+w] and the cursor advances by exactly that width once per step, unconditionally; CustomMode.build rejects a column count different from the number of placeholders before any run."""
    f = ctx.func(f"{M}:CustomMode._custom_parameters")
    g = ctx.cfg(f)
    outer = [l for l in loops_in(f.node) if isinstance(l, ast.For) and enclosing_loop(l) is None]
    if len(outer) != 1 or "iterrows" not in norm(outer[0].iter):
        raise AnalysisError("_custom_parameters: row loop not recognised")
    rows = outer[0]
    ok = dotted(rows.iter.func.value) == "self.custom_data" if isinstance(rows.iter, ast.Call) and isinstance(rows.iter.func, ast.Attribute) else False
    ctx.check(ok, f.qual + "#rows", "one entry per row of custom_data" if ok else f"iterates {norm(rows.iter)}", where=f, node=rows.iter)
    inner = [l for l in loops_in(rows) if l is not rows and isinstance(l, ast.For) and enclosing_loop(l) is rows]
    if len(inner) != 1:
        ctx.fail(f.qual + "#steps", f"expected one loop over the enabled steps per row, found {len(inner)}", where=f, node=rows)
        return
    steps = inner[0]
    it = expand(f, steps.iter)
    sv = steps.target.id if isinstance(steps.target, ast.Name) else None
    if isinstance(it, ast.Call) and call_name(it) == "enumerate" and it.args and isinstance(steps.target, ast.Tuple) and len(steps.target.elts) == 2 and isinstance(steps.target.elts[1], ast.Name):
        it, sv = it.args[0], steps.target.elts[1].id  # a position counter next to the step does no harm by itself
    ok = dotted(it) == "self.enabled_steps" and sv is not None
    ctx.check(ok, f.qual + "#steps", "columns consumed by the enabled steps in declaration order" if ok else f"step loop iterates {norm(steps.iter)}", where=f, node=steps.iter)
    if not ok:
        return
    # Decided per path through one step (sa/paths.py): the column cursor is the loop-carried local;
    # on every path it ends at cursor + (number of placeholders of the step) and the row is read at
    # [cursor] (one placeholder) or [cursor : cursor + width].
    from sa.paths import enumerate_paths

    paths = enumerate_paths(steps.body, containers=set())
    live = [q for q in paths if q.exit == "fall"]
    for q in paths:
        if q.exit in ("continue", "break", "return"):
            ctx.fail(f.qual + "#advance-once", f"{q.exit} inside the step loop leaves a step without consuming its columns", where=f, node=q.exit_node)
    carried = {nm for q in live for nm, val in q.env.items() if nm.isidentifier() and nm in names_in(val)}
    if len(carried) != 1:
        ctx.fail(f.qual + "#cursor", f"expected one column cursor advanced inside the step loop, found {sorted(carried)} (a position counter of the steps is not a column offset: a vector parameter takes several columns)", where=f, node=steps)
        return
    cur = next(iter(carried))
    inits = [st for st, val in local_defs(f, cur) if isinstance(val, ast.Constant) and not contains(steps, st)]
    ok = len(inits) == 1 and inits[0].value.value == 0 and contains(rows, inits[0])
    ctx.check(ok, f.qual + "#reset", f"`{cur} = 0` for every row" if ok else f"column cursor `{cur}` is not reset to 0 for each row", where=f, node=inits[0] if inits else rows)
    rowvars = {nm for nm in ("row",)} | {st.targets[0].id for st in rows.body if isinstance(st, ast.Assign) and isinstance(st.targets[0], ast.Name) and "to_list" in norm(st.value)} | {st.target.id for st in rows.body if isinstance(st, ast.AnnAssign) and isinstance(st.target, ast.Name) and st.value is not None and "to_list" in norm(st.value)}
    wlen = to_poly(ast.parse(f"len({sv}.values)", mode="eval").body)
    n_scalar = n_vec = 0
    for q in live:
        scalar = q.holds(f"{sv}.values == '_'") is True
        fin = q.env.get(cur)
        adv = (to_poly(fin) - to_poly(ast.Name(id=cur, ctx=ast.Load()))) if fin is not None else None
        okadv = adv is not None and (adv == wlen or (scalar and adv == to_poly(ast.Constant(value=1))))
        tag = "scalar" if scalar else "vector"
        ctx.check(okadv, f.qual + f"#advance:{tag}", f"cursor advances by the number of placeholders of the step ({tag})" if okadv else (f"cursor `{cur}` is not advanced for a {tag} step" if fin is None else f"cursor becomes {norm(fin)} instead of {cur} + len({sv}.values) for a {tag} step"), where=f, node=steps, facts={"path": [f"{t}={p_}" for t, p_ in q.cond_texts()]})
        reads = []
        for e_ in q.effects:
            for sub_ in ast.walk(e_.value) if e_.value is not None else []:
                if isinstance(sub_, ast.Subscript) and dotted(sub_.value) in rowvars:
                    reads.append((sub_, e_.node))
        if not reads:
            ctx.fail(f.qual + f"#read-{tag}", f"a {tag} step stores nothing read from the row", where=f, node=steps)
        for rd, node in reads:
            if isinstance(rd.slice, ast.Slice):
                n_vec += 1
                lo_e, hi_e = rd.slice.lower, rd.slice.upper
                okr = lo_e is not None and hi_e is not None and rd.slice.step is None and dotted(lo_e) == cur
                why = f"reads row[{norm(rd.slice)}]"
                if okr:
                    width = to_poly(hi_e) - to_poly(lo_e)
                    same = width == wlen
                    # or: the width derives from step.values and the path asserts len(slice) == len(step.values)
                    asserted = any(pol and norm(t) in (f"len({norm(rd)}) == len({sv}.values)", f"len({sv}.values) == len({norm(rd)})") for t, pol in q.conds)
                    derived = f"{sv}.values" in norm(hi_e)
                    okr = same or (derived and asserted)
                    why = "slice width equals the advance" if same else ("slice width derives from step.values and is asserted equal to the advance" if okr else f"slice width {norm(hi_e)} - {norm(lo_e)} is not tied to the cursor advance len({sv}.values)")
                ctx.check(okr, f.qual + "#read-vector", why, where=f, node=node)
            else:
                n_scalar += 1
                okr = dotted(rd.slice) == cur and scalar
                ctx.check(okr, f.qual + "#read-scalar", "scalar step reads row[cursor]; its width len('_') = 1 = the advance" if okr else f"{tag} step reads row[{norm(rd.slice)}]: not the column at the cursor / not a one-placeholder step", where=f, node=node)
    if n_scalar < 1 or n_vec < 1:
        ctx.fail(f.qual + "#reads", "scalar and vector column reads not both found", where=f, node=steps)
    # build(): column count check
    b = ctx.func(f"{M}:CustomMode.build")
    gb = ctx.cfg(b)
    cnt = [i for i in raising_ifs(b.node) if isinstance(i.test, ast.Compare) and isinstance(i.test.ops[0], ast.NotEq) and {norm(expand(b, i.test.left, depth=1)), norm(expand(b, i.test.comparators[0], depth=1))} == {"counter['_']", "len(filtered_data.columns)"}]
    ok = len(cnt) == 1 and gb.node_of(cnt[0]) in gb.dominators("n").get(gb.exit_return, set())
    ctx.check(ok, b.qual + "#column-count", "column count != number of '_' placeholders raises before the mode exists" if ok else "custom mode no longer rejects a table whose column count differs from the number of placeholders", where=b, node=cnt[0] if cnt else b.node)
    # "one run per table row": the table handed to the mode is the loaded file with a COLUMN selection only - every row,
    # in file order (no drop_duplicates / dropna / sort / head / query / row slicing)
    cons_ = [c_ for c_ in calls_in(b.node) if call_name(c_) == "cls" and kw(c_, "custom_data") is not None]
    if cons_:
        tbl = expand(b, kw(cons_[0], "custom_data"))
        chain, steps_ok, bad_step = tbl, True, None
        while not (isinstance(chain, ast.Call) and call_name(chain).split(".")[-1] == "load_table"):
            if isinstance(chain, ast.Subscript) and isinstance(chain.value, ast.Attribute) and chain.value.attr == "loc" and isinstance(chain.slice, ast.Tuple) and len(chain.slice.elts) == 2 and isinstance(chain.slice.elts[0], ast.Slice) and chain.slice.elts[0].lower is None and chain.slice.elts[0].upper is None and chain.slice.elts[0].step is None:
                chain = chain.value.value
            elif isinstance(chain, ast.Call) and isinstance(chain.func, ast.Attribute) and chain.func.attr in ("copy", "reset_index") and (chain.func.attr == "copy" or any(k.arg == "drop" for k in chain.keywords)):
                chain = chain.func.value
            else:
                steps_ok, bad_step = False, chain
                break
        ctx.check(steps_ok, b.qual + "#all-rows", "the table keeps every row of the file, in file order (columns selected only)" if steps_ok else f"the custom table is `{norm(bad_step)[:70]}`: rows of the file are dropped / merged / reordered, so not every row becomes a run and run ids no longer match row numbers", where=b, node=cons_[0])
    cdef = local_defs(b, "counter")
    ok = len(cdef) == 1 and "if step.enabled" in norm(expand(b, cdef[0][1])) and ".values" in norm(expand(b, cdef[0][1]))
    ctx.check(ok, b.qual + "#count-enabled", "placeholders counted over the enabled steps" if ok else "placeholders are not counted over the enabled steps", where=b, node=cdef[0][0] if cdef else b.node)


def r4_entry_wiring(ctx):
    """_run_single_pipeline applies param_item.parameters to a new processor, runs that processor, and labels the result with the same param_item.parameters / .index; inside the labelling helpers the coordinate name and the attached value belong to the same key."""
    f = ctx.func(f"{O}:Observation._run_single_pipeline")
    pi = f.params[1]
    cnp = stmt_calls(f, ctx.R, {f"{M}:create_new_processor"})
    ok = len(cnp) == 1
    if ok:
        a_p = arg_or_kw(cnp[0], 0, "processor")
        a_d = arg_or_kw(cnp[0], 1, "parameter_dict")
        ok = a_p is not None and dotted(a_p) == "processor" and a_d is not None and dotted(a_d) == f"{pi}.parameters"
    ctx.check(ok, f.qual + "#apply", f"new processor = create_new_processor(processor, {pi}.parameters)" if ok else "the run's parameters are not applied to a fresh processor", where=f, node=cnp[0] if cnp else f.node)
    runs = stmt_calls(f, ctx.R, {"pyxel.exposure.exposure:run_pipeline"})
    newp = None
    if cnp:
        st = enclosing_stmt(cnp[0])
        if isinstance(st, (ast.Assign, ast.AnnAssign)):
            t = st.targets[0] if isinstance(st, ast.Assign) else st.target
            newp = dotted(t)
    ok = len(runs) == 1 and kw(runs[0], "processor") is not None and dotted(kw(runs[0], "processor")) == newp
    ctx.check(ok, f.qual + "#run", "runs the processor carrying the run's parameters" if ok else f"run_pipeline is given {norm(kw(runs[0], 'processor')) if runs else None} instead of {newp}", where=f, node=runs[0] if runs else f.node)
    want = {
        f"{O}:_add_product_parameters": {"parameter_dict": f"{pi}.parameters", "indexes": f"{pi}.index", "dimension_names": f.params[2], "types": "types"},
        f"{O}:_add_custom_parameters": {"parameter_dict": f"{pi}.parameters", "index": f"{pi}.index", "dimension_names": f.params[2], "types": "types"},
    }
    for q, kws in want.items():
        cs = stmt_calls(f, ctx.R, {q})
        if len(cs) != 1:
            ctx.fail(f.qual + "->" + q.split(":")[1], f"{len(cs)} calls (expected one)", where=f, node=f.node)
            continue
        bad = [(k, norm(kw(cs[0], k))) for k, v in kws.items() if kw(cs[0], k) is None or dotted(kw(cs[0], k)) != v]
        dt = kw(cs[0], "data_tree")
        dt_ok = dt is not None and runs and dotted(dt) == dotted(enclosing_stmt(runs[0]).targets[0] if isinstance(enclosing_stmt(runs[0]), ast.Assign) else enclosing_stmt(runs[0]).target)
        ctx.check(not bad and dt_ok, f.qual + "->" + q.split(":")[1], "labels come from the same entry that was applied" if not bad and dt_ok else f"label/applied mismatch: {bad or norm(dt)}", where=f, node=cs[0])
    # helpers
    ap = ctx.func(f"{O}:_add_product_parameters")
    lps = [l for l in loops_in(ap.node) if isinstance(l, ast.For) and enclosing_loop(l) is None]
    ok, why = False, "loop not recognised"
    if len(lps) == 1:
        lp = lps[0]
        it = expand(ap, lp.iter)
        if isinstance(it, ast.Call) and call_name(it) == "zip" and len(it.args) == 2 and isinstance(lp.target, ast.Tuple) and len(lp.target.elts) == 2 and isinstance(lp.target.elts[1], ast.Tuple):
            ok = dotted(it.args[0]) == "indexes" and norm(it.args[1]) == "parameter_dict.items()"
            why = "zip(indexes, parameter_dict.items())" if ok else f"pairs {norm(it)[:80]}"
            vi = dotted(lp.target.elts[0])
            vk, vv = (dotted(x) for x in lp.target.elts[1].elts)
            _label_dicts(ctx, ap, lp, vk, vv, vi)
    ctx.check(ok, ap.qual + "#zip", why, where=ap, node=lps[0].iter if lps else ap.node)
    ac = ctx.func(f"{O}:_add_custom_parameters")
    lps = [l for l in loops_in(ac.node) if isinstance(l, ast.For) and enclosing_loop(l) is None]
    ok, why = False, "loop not recognised"
    if len(lps) == 1:
        lp = lps[0]
        ok = norm(lp.iter) == "parameter_dict.items()" and isinstance(lp.target, ast.Tuple) and len(lp.target.elts) == 2
        why = "iterates parameter_dict.items()" if ok else f"iterates {norm(lp.iter)}"
        if ok:
            vk, vv = (dotted(x) for x in lp.target.elts)
            _label_dicts(ctx, ac, lp, vk, vv, "index")
    ctx.check(ok, ac.qual + "#loop", why, where=ac, node=lps[0].iter if lps else ac.node)
    idd = [d for d in ast.walk(ac.node) if isinstance(d, ast.Dict) and any(isinstance(k, ast.Constant) and k.value == "id" for k in d.keys)]
    ok = bool(idd) and all(norm(v) == "[index]" for d in idd for k, v in zip(d.keys, d.values) if isinstance(k, ast.Constant) and k.value == "id")
    ctx.check(ok, ac.qual + "#id", "the 'id' label is the entry's index" if ok else "the 'id' label is not the entry's index", where=ac, node=idd[0] if idd else ac.node)


def _label_dicts(ctx, fn, lp, vk, vv, vi):
    """Inside the labelling loop: short_name = dimension_names[<key var>]; dict entries keyed by
    short_name carry the paired value, entries keyed by f'{short_name}_id' carry [index]."""
    sn = [(st, val) for st, val in local_defs(fn, "short_name") if contains(lp, st)]
    ok = len(sn) == 1 and sn[0][1] is not None and norm(sn[0][1]) == f"dimension_names[{vk}]"
    ctx.check(ok, fn.qual + "#short-name", f"short_name = dimension_names[{vk}]" if ok else f"coordinate name is {norm(sn[0][1]) if sn else None}", where=fn, node=sn[0][0] if sn else lp)
    derived = {vv}
    for st, t in stores(lp, lambda t: isinstance(t, ast.Name)):
        val = getattr(st, "value", None)
        if val is not None and names_in(val) & derived and st is not lp:
            derived.add(t.id)
    n = 0
    for d in [x for x in ast.walk(lp) if isinstance(x, ast.Dict)]:
        for k, v in zip(d.keys, d.values):
            if k is None:
                continue
            kt = norm(k)
            if kt == "short_name":
                n += 1
                used = names_in(v)
                ok = bool(used & derived) and vi not in (used - derived)
                ctx.check(ok, fn.qual + "#label-value", "coordinate value derives from the paired parameter value" if ok else f"coordinate {kt} is given {norm(v)[:60]}", where=fn, node=d)
            elif kt == "f'{short_name}_id'":
                n += 1
                ok = norm(v) == f"[{vi}]"
                ctx.check(ok, fn.qual + "#label-index", "the _id coordinate is the run's own index" if ok else f"{kt} is given {norm(v)}", where=fn, node=d)
    if n == 0:
        ctx.fail(fn.qual + "#labels", "no coordinate is attached under the parameter's name", where=fn, node=lp)
    # types/key consistency
    for t in [x for x in ast.walk(lp) if isinstance(x, ast.Subscript) and dotted(x.value) in ("types", "dimension_names")]:
        ok = dotted(t.slice) == vk
        if not ok:
            ctx.fail(fn.qual + "#key", f"{norm(t)} is not indexed with the current key {vk}", where=fn, node=t)


ZIP_TABLE = {
    # pairings whose equal length is NOT derivable by seq_len(): reviewed by hand, keyed by the
    # rename-invariant text (alpha form, `strict=` removed)
    f"{M}:ProductMode._product_parameters": {
        "zip(self._product_indices(), itertools.product(*self.enabled_steps))": "both enumerate the product of the same ordered step list (C05.R2)",
    },
    f"{M}:SequentialMode.create_params": {
        "zip(*{step.key: list(step) for step in self.enabled_steps}.values())": "known finding C07.R1 (dask path zips instead of chaining); C05 decides the sequential path",
    },
    f"{M}:convert_custom_data": {
        "zip(params_names, params_custom_list)": "both built from the same all_steps mapping in CustomMode.create_params",
    },
    f"{O}:_add_product_parameters": {
        "zip(indexes, parameter_dict.items())": "index tuple and parameter dict of one ParameterEntry, built position-aligned (C05.R2)",
    },
    f"{OD}:_build_data_tree": {
        "zip(output_dimensions, data_array_lst)": "apply_ufunc returns one array per entry of output_core_dims, which is built from output_dimensions",
    },
    f"{OD}:_run_pipelines_array_to_datatree": {
        "zip(dimension_names, params_tuple)": "a dominating length check raises when they differ",
    },
}


def _zip_text(fn, c):
    e = alpha(fn, c)
    if isinstance(e, ast.Call):
        e.keywords = [k for k in e.keywords if k.arg != "strict"]
        for a in e.args:  # zip(*list(X)) == zip(*X)
            while isinstance(a, ast.Starred) and isinstance(a.value, ast.Call) and call_name(a.value) in ("list", "tuple") and len(a.value.args) == 1:
                a.value = a.value.args[0]
    return norm(e)


def _zip_same_length(fn, c) -> bool:
    """Equal length by construction: every operand has the same seq_len token (endless iterators aside)."""
    if any(isinstance(a, ast.Starred) for a in c.args) or not c.args:
        return False
    toks = [seq_len(fn, a) for a in c.args]
    finite = [t for t in toks if t != "inf"]
    if len(finite) <= 1:
        return True  # paired with endless counters only: nothing can be cut short
    return None not in finite and len(set(finite)) == 1


def dim_names_order(ctx, f):
    """The mapping returned by _get_short_dimension_names_new lists every parameter once, in the
    declaration order of `types` (the dask path pairs its keys positionally with the value tuple)."""
    tp = f.params[0]
    # the returned mapping must list the parameters in declaration order: the dask path pairs
    # its keys positionally with the value tuple (zip(dimension_names, params_tuple))
    g = ctx.cfg(f)
    rets = [r for r in returns_of(f) if r.value is not None]
    ordered_ok: dict[str, tuple[bool, str]] = {}

    def order_follows(name: str, depth=0) -> tuple[bool, str]:
        if name == tp:
            return True, "the parameter mapping itself"
        if name in ordered_ok:
            return ordered_ok[name]
        ordered_ok[name] = (False, "recursive")
        defs = local_defs(f, name)
        inits = [(st, val) for st, val in defs]
        res = (False, f"`{name}` is not built by one ordered pass over the parameters")
        if len(inits) == 1 and isinstance(inits[0][1], ast.DictComp):
            dc = inits[0][1]
            gen = dc.generators[0]
            src = dotted(gen.iter) or (dotted(gen.iter.func.value) if isinstance(gen.iter, ast.Call) and isinstance(gen.iter.func, ast.Attribute) and gen.iter.func.attr in ("items", "keys") else None)
            kv = gen.target.id if isinstance(gen.target, ast.Name) else (gen.target.elts[0].id if isinstance(gen.target, ast.Tuple) and isinstance(gen.target.elts[0], ast.Name) else None)
            extra = [c for c in calls_in(f.node) if isinstance(c.func, ast.Attribute) and dotted(c.func.value) == name and c.func.attr in ("setdefault", "update", "pop")] + [st for st, t in stores(f.node, lambda t: isinstance(t, ast.Subscript) and dotted(t.value) == name)]
            if gen.ifs:
                res = (False, f"`{name}` is a filtered comprehension: parameters are inserted out of declaration order")
            elif extra:
                res = (False, f"`{name}` is completed after its comprehension ({norm(extra[0])[:50]}): insertion order differs from declaration order")
            elif src and dotted(dc.key) == kv:
                res = order_follows(src, depth + 1)
        elif len(inits) == 1 and isinstance(inits[0][1], ast.Dict) and not inits[0][1].keys:
            ins = [st for st, t in stores(f.node, lambda t: isinstance(t, ast.Subscript) and dotted(t.value) == name)]
            extra = [c for c in calls_in(f.node) if isinstance(c.func, ast.Attribute) and dotted(c.func.value) == name and c.func.attr in ("setdefault", "update", "pop")]
            loops = {id(enclosing_loop(st)): enclosing_loop(st) for st in ins}
            if extra:
                res = (False, f"`{name}` is also filled through {norm(extra[0])[:50]}")
            elif len(loops) == 1 and isinstance(next(iter(loops.values())), ast.For):
                lp_ = next(iter(loops.values()))
                kv = lp_.target.id if isinstance(lp_.target, ast.Name) else (lp_.target.elts[0].id if isinstance(lp_.target, ast.Tuple) and isinstance(lp_.target.elts[0], ast.Name) else None)
                src = dotted(lp_.iter) or (dotted(lp_.iter.func.value) if isinstance(lp_.iter, ast.Call) and isinstance(lp_.iter.func, ast.Attribute) and lp_.iter.func.attr in ("items", "keys") else None)
                nodes = [n for st in ins for n in g.nodes_of(st)]
                lo, hi = g.count_events_per_iteration(g.node_of(lp_), nodes)
                keys_ok = all(dotted(st.targets[0].slice) == kv for st in ins if isinstance(st, ast.Assign))
                if (lo, hi) != (1, 1):
                    res = (False, f"`{name}` receives between {lo} and {hi} entries per parameter")
                elif not keys_ok or src is None:
                    res = (False, f"`{name}` is not keyed by the iterated parameter")
                else:
                    res = order_follows(src, depth + 1)
        ordered_ok[name] = res
        return res

    for r in rets:
        nm = dotted(r.value)
        ok, why = order_follows(nm) if nm else (False, f"returns {norm(r.value)[:50]}")
        ctx.check(ok, f.qual + "#order", f"`{nm}` lists every parameter once, in declaration order" if ok else why + " (the dask path pairs names and values positionally)", where=f, node=r)
    return rets


def r5_names_and_zips(ctx):
    """Every parameter gets a dimension name and duplicates are replaced by '<model>.<argument>'; every zip(...) on the observation path pairs sequences that are equal-length by construction (reviewed table), and the dask length check dominates its zip."""
    f = ctx.func(f"{O}:_get_short_dimension_names_new")
    tp = f.params[0]
    dd = local_defs(f, "duplicate_dim_names")
    ok = False
    if len(dd) == 1 and isinstance(dd[0][1], ast.ListComp):
        lc = dd[0][1]
        ifs = [norm(i) for i in lc.generators[0].ifs]
        src = norm(expand(f, lc.generators[0].iter))
        ok = len(ifs) == 1 and ifs[0].endswith("> 1") and "Counter(" in src and ".values()" in src
    ctx.check(ok, f.qual + "#duplicates", "duplicates = names used more than once" if ok else "duplicate detection changed", where=f, node=dd[0][0] if dd else f.node)
    # replacement of colliding names: _get_short_name_with_model(<key>) under a membership test in the duplicates
    repl_calls = [c for c in calls_in(f.node) if call_name(c) == "_get_short_name_with_model"]
    ok = False
    for c in repl_calls:
        ts = enclosing_tests(c)
        guarded = any(pol and isinstance(t, ast.Compare) and isinstance(t.ops[0], ast.In) and norm(t.comparators[0]) == "duplicate_dim_names" for t, pol in ts)
        lp_ = enclosing_loop(c)
        keyvar = None
        from sa.index import ancestors as _anc

        for a_ in _anc(c):
            if isinstance(a_, (ast.DictComp, ast.ListComp, ast.GeneratorExp)):
                gen_ = a_.generators[0]
                if any(isinstance(t, ast.Compare) and isinstance(t.ops[0], ast.In) and norm(t.comparators[0]) == "duplicate_dim_names" for i_ in gen_.ifs for t in conjuncts(i_)):
                    guarded = True
                keyvar = gen_.target.id if isinstance(gen_.target, ast.Name) else (gen_.target.elts[0].id if isinstance(gen_.target, ast.Tuple) and isinstance(gen_.target.elts[0], ast.Name) else None)
                lp_ = None
                break
        if isinstance(lp_, ast.For):
            keyvar = lp_.target.id if isinstance(lp_.target, ast.Name) else (lp_.target.elts[0].id if isinstance(lp_.target, ast.Tuple) and isinstance(lp_.target.elts[0], ast.Name) else None)
        ok = ok or (guarded and c.args and keyvar is not None and dotted(c.args[0]) == keyvar)
    ctx.check(ok, f.qual + "#replace", "colliding names replaced by <model>.<argument> of the same parameter" if ok else "colliding short names are not disambiguated by _get_short_name_with_model(<same parameter>) under `in duplicate_dim_names`", where=f, node=repl_calls[0] if repl_calls else f.node)
    rets = dim_names_order(ctx, f)
    # when duplicates exist the disambiguated mapping is what is returned
    names_with_repl = set()
    for c in repl_calls:
        scope = enclosing_loop(c) or enclosing_stmt(c)
        for t in ast.walk(scope):
            if isinstance(t, ast.Subscript) and isinstance(t.ctx, ast.Store):
                names_with_repl.add(dotted(t.value))
        for nm2 in {dotted(r.value) for r in rets if dotted(r.value)}:
            for st2, val2 in local_defs(f, nm2):
                if val2 is not None and contains(val2, c):
                    names_with_repl.add(nm2)
    ok = False
    for r in rets:
        if dotted(r.value) in names_with_repl:
            ts = enclosing_tests(r)
            # reached whenever duplicates exist: either under `if duplicate_dim_names`, or after an early return for the no-duplicate case
            early = [r2 for r2 in rets if r2 is not r and any((pol and norm(t) == "not duplicate_dim_names") or ((not pol) and norm(t) == "duplicate_dim_names") for t, pol in enclosing_tests(r2))]
            ok = any(pol and norm(t) == "duplicate_dim_names" for t, pol in ts) or (not ts and bool(early)) or (not ts and len(rets) == 1)
    ctx.check(ok, f.qual + "#return", "returns the disambiguated mapping whenever duplicates exist" if ok else "the disambiguated mapping is not returned when duplicates exist", where=f, node=rets[0] if rets else f.node)
    gm = ctx.func(f"{M}:_get_short_name_with_model")
    rets = [r for r in returns_of(gm) if r.value is not None]
    ok = len(rets) == 1 and norm(rets[0].value) == "f'{model_name}.{param_name}'"
    ctx.check(ok, gm.qual, "<model>.<argument>" if ok else f"returns {norm(rets[0].value) if rets else None}", where=gm, node=rets[0] if rets else gm.node)
    # zip table
    n = 0
    for mod in (M, O, OD):
        m = ctx.repo.module(mod)
        for fn in [x for x in ctx.repo.all_functions() if x.module is m]:
            for c in calls_in(fn.node):
                if call_name(c) != "zip":
                    continue
                n += 1
                txt = _zip_text(fn, c)
                table = {}
                for q_, t_ in ZIP_TABLE.items():
                    # the reviewed pairings stay reviewed when the statement moves between a function and its helper
                    table.update(t_)
                same = _zip_same_length(fn, c)
                ok = same or txt in table
                ctx.check(ok, f"{fn.qual}#zip", ("operands have the same length by construction" if same else table.get(txt, "")) if ok else f"unreviewed pairing {txt[:110]}: zip silently truncates when the operands differ in length", where=fn, node=c)
    # a pairing that disappears (zip(count(i), xs) rewritten as a range) is not a risk; the floor only guards
    # against the matcher going blind on the observation code as a whole
    ctx.floor(n, 5)
    d = ctx.func(f"{OD}:_run_pipelines_array_to_datatree")
    g = ctx.cfg(d)
    gi = [i for i in raising_ifs(d.node) if {norm(i.test.left), norm(i.test.comparators[0])} == {"len(dimension_names)", "len(params_tuple)"} and isinstance(i.test.ops[0], ast.NotEq)] if True else []
    zips = [c for c in calls_in(d.node) if call_name(c) == "zip"]
    ok = len(gi) == 1 and all(g.must_precede([g.node_of(gi[0])], n) for z in zips for n in g.nodes if n.ast is not None and n.kind == "stmt" and contains(n.ast, z))
    ctx.check(ok, d.qual + "#length-check", "len(dimension_names) != len(params_tuple) raises before the zip" if ok else "the length check no longer dominates the zip of names and values", where=d, node=gi[0] if gi else d.node)


def r6_validation_first(ctx):
    """validate_steps(processor) dominates both the dask and the sequential branch of run_pipelines; all entries returned by get_parameters_item are run and all their results merged."""
    f = ctx.func(f"{O}:Observation.run_pipelines")
    g = ctx.cfg(f)
    val = stmt_calls(f, ctx.R, {f"{O}:Observation.validate_steps"})
    vn = [n for c in val for n in g.nodes if n.ast is not None and n.kind == "stmt" and contains(n.ast, c)]
    targets = stmt_calls(f, ctx.R, {f"{OD}:run_pipelines_with_dask", f"{O}:Observation._run_single_pipeline"})
    if len(targets) < 2:
        raise AnalysisError("run_pipelines: dask and sequential branches not both found")
    for t in targets:
        tn = [n for n in g.nodes if n.ast is not None and n.kind == "stmt" and contains(n.ast, t)]
        ok = bool(vn) and all(g.must_precede(vn, n) for n in tn)
        ctx.check(ok, f.qual + "#validate-first:" + call_name(t).split(".")[-1], "validate_steps dominates the runs" if ok else "a path starts runs without validate_steps", where=f, node=t)
    for c in val:
        a = arg_or_kw(c, 0, "processor")
        ok = a is not None and dotted(a) == "processor"
        ctx.check(ok, f.qual + "#validate-arg", "validates the processor that will run" if ok else f"validates {norm(a)}", where=f, node=c)
    rs = [t for t in targets if call_name(t).endswith("_run_single_pipeline")][0]
    comp = None
    for anc in [a for a in ast.walk(f.node) if isinstance(a, (ast.ListComp, ast.GeneratorExp))]:
        if contains(anc, rs):
            comp = anc
    rs_for_el = rs
    acc_runs_name = None
    if comp is None:
        # `runs = []; for el in entries: r = self._run_single_pipeline(el, ..); runs.append(r)` is the same comprehension
        from sa.astutil import accumulator_comp

        for nm_ in sorted({t_.id for st_ in ast.walk(f.node) if isinstance(st_, (ast.Assign, ast.AnnAssign)) for t_ in (st_.targets if isinstance(st_, ast.Assign) else [st_.target]) if isinstance(t_, ast.Name)}):
            c_ = accumulator_comp(f.node, nm_)
            if isinstance(c_, ast.ListComp):
                inner = [x for x in ast.walk(c_.elt) if isinstance(x, ast.Call) and call_name(x).endswith("_run_single_pipeline")]
                if inner:
                    comp, rs_for_el = c_, inner[0]
                    acc_runs_name = nm_
                    break
    ok, why = False, "runs are not produced by a plain comprehension over all entries"
    if comp is not None and len(comp.generators) == 1:
        gen = comp.generators[0]
        src = expand(f, gen.iter)
        core = src
        while isinstance(core, ast.Call) and call_name(core) in ("tqdm", "list", "tuple", "enumerate") and core.args:
            core = core.args[0]
        el = rs_for_el.args[0] if rs_for_el.args else kw(rs_for_el, "param_item")
        ok = not gen.ifs and not order_breakers(src) and el is not None and dotted(el) == dotted(gen.target)
        pm = [c for c in ast.walk(core) if isinstance(c, ast.Call) and isinstance(c.func, ast.Attribute) and c.func.attr == "get_parameters_item"]
        defs = local_defs(f, dotted(core) or "")
        all_src = all(val is not None and isinstance(val, ast.Call) and isinstance(val.func, ast.Attribute) and val.func.attr == "get_parameters_item" and dotted(val.func.value) == "self.parameter_mode" for _, val in defs) and bool(defs)
        ok = ok and (bool(pm) or all_src)
        why = "one run per entry of parameter_mode.get_parameters_item(), none filtered" if ok else f"runs iterate {norm(src)[:80]} with filters {[norm(i) for i in gen.ifs]}"
    ctx.check(ok, f.qual + "#all-entries", why, where=f, node=comp or rs)
    mer = [c for c in calls_in(f.node) if call_name(c).endswith("map_over_datasets")]
    ok = bool(mer) and any(isinstance(a, ast.Starred) for a in mer[0].args) and "merge" in norm(mer[0])
    ctx.check(ok, f.qual + "#merge-all", "all run results are merged" if ok else "not all run results are merged", where=f, node=mer[0] if mer else f.node)
    # ... on EVERY path (sa/paths.py): whatever the number of runs, the result is ONE merge over the complete list of
    # run results - no path may merge batches / slices / partitions of it (a partition drops an incomplete tail)
    if ok and comp is not None:
        from sa.paths import enumerate_paths

        # the statements of the sequential branch from the production of the runs onwards
        rs_stmt = enclosing_stmt(rs)
        start_ = enclosing_loop(rs) if isinstance(enclosing_loop(rs), ast.For) else rs_stmt
        blk = getattr(start_, "_parent", None)
        body = None
        for fld in ("body", "orelse", "finalbody"):
            lst = getattr(blk, fld, None)
            if isinstance(lst, list) and start_ in lst:
                body = lst[lst.index(start_):]
        runs_name = None
        if isinstance(rs_stmt, (ast.Assign, ast.AnnAssign)) and not isinstance(enclosing_loop(rs), ast.For):
            t_ = rs_stmt.targets[0] if isinstance(rs_stmt, ast.Assign) else rs_stmt.target
            runs_name = t_.id if isinstance(t_, ast.Name) else None
        if runs_name is None:
            runs_name = acc_runs_name
        res_names = {dotted(getattr(enclosing_stmt(m_), "targets", [None])[0]) if isinstance(enclosing_stmt(m_), ast.Assign) else dotted(getattr(enclosing_stmt(m_), "target", None)) for m_ in mer}
        res_names.discard(None)
        if body and runs_name and len(res_names) == 1:
            res = next(iter(res_names))
            badp = None
            for q_ in enumerate_paths(body, containers=set()):
                if q_.exit == "raise":
                    continue
                v_ = q_.env.get(res)
                good_ = isinstance(v_, ast.Call) and call_name(v_).endswith("map_over_datasets") and any(isinstance(a_, ast.Starred) and ("_run_single_pipeline" in norm(a_.value) and isinstance(a_.value, (ast.ListComp, ast.Name)) or dotted(a_.value) == runs_name) for a_ in v_.args)
                if not good_:
                    badp = (q_, v_)
                    break
            ctx.check(badp is None, f.qual + "#merge-all-paths", "on every path the result is one merge over the complete list of run results" if badp is None else f"when {badp[0].cond_texts()[:2]} the result is `{norm(badp[1])[:80] if badp[1] is not None else None}`: not a merge over the complete list of run results (batches / partitions can drop runs)", where=f, node=mer[0])
    # validate_steps itself: has + enabled + placeholder checks (detail in C08.R4)


def r7_dask_grid_labels(ctx):
    """The dask path's parameter grid of product mode labels each entry with the values it holds (values and labels are one from_product index; shared with C07.R1)."""
    from props.C07 import product_grid_labels

    product_grid_labels(ctx)


def r8_parameters_applied_in_given_order(ctx):
    """A run's parameters are applied to the processor copy in the order they were declared (setters of coupled settings, e.g. the APD gain / bias pair, depend on it): create_new_processor and Processor.replace iterate the given mapping itself, not a sorted / reversed / set view of it."""
    for q, pname in ((f"{M}:create_new_processor", None), ("pyxel.pipelines.processor:Processor.replace", None)):
        f = ctx.func(q)
        sets = [c for c in calls_in(f.node) if isinstance(c.func, ast.Attribute) and c.func.attr == "set"]
        if not sets:
            # delegation: the given mapping is handed unchanged to the sibling that applies it (held to this rule too)
            dele = [c for c in calls_in(f.node) if isinstance(c.func, ast.Attribute) and c.func.attr == "replace" and any(getattr(x, "qual", "") == "pyxel.pipelines.processor:Processor.replace" for x in ctx.R.resolve_call(f, c))]
            if dele and all(dotted(expand(f, arg_or_kw(c, 0, "changes"))) in f.params for c in dele if arg_or_kw(c, 0, "changes") is not None):
                ctx.ok(f.qual + "#order", "hands the given mapping unchanged to Processor.replace", where=f, node=dele[0])
                continue
        lps = [enclosing_loop(c) for c in sets]
        ok = bool(sets) and all(isinstance(l, ast.For) for l in lps)
        why = "parameters are not applied in a loop over the given mapping"
        if ok:
            lp = lps[0]
            it = expand(f, lp.iter)
            br = order_breakers(it)
            core, _ = strip_order_preserving(it)
            src = dotted(core.func.value) if isinstance(core, ast.Call) and isinstance(core.func, ast.Attribute) and core.func.attr in ("items", "keys") else dotted(core)
            ok = not br and src in f.params
            why = f"applies the given parameters in their own order ({norm(it)[:40]})" if ok else f"parameters are applied in the order of `{norm(it)[:50]}`: not the declaration order of the run's parameters"
        ctx.check(ok, f.qual + "#order", why, where=f, node=lps[0].iter if lps and lps[0] is not None else f.node)


def r9_dask_column_cursor(ctx):
    """convert_custom_data (the dask sibling of CustomMode._custom_parameters): one column cursor starting at 0, advanced on every path through the parameter loop by the number of placeholders of that parameter; a single-placeholder parameter reads custom_data[cursor], a vector parameter the columns counted from the cursor."""
    from sa.paths import enumerate_paths

    f = ctx.func(f"{M}:convert_custom_data")
    outer = [l for l in loops_in(f.node) if isinstance(l, ast.For) and enclosing_loop(l) is None]
    if len(outer) != 1:
        raise AnalysisError("convert_custom_data: parameter loop not recognised")
    lp = outer[0]
    it = expand(f, lp.iter)
    tgt = lp.target
    if isinstance(it, ast.Call) and call_name(it) == "enumerate" and it.args and isinstance(tgt, ast.Tuple) and len(tgt.elts) == 2:
        it, tgt = it.args[0], tgt.elts[1]
    ok = isinstance(it, ast.Call) and call_name(it) == "zip" and [dotted(a) for a in it.args] == ["params_names", "params_custom_list"] and isinstance(tgt, ast.Tuple) and len(tgt.elts) == 2 and all(isinstance(e, ast.Name) for e in tgt.elts)
    ctx.check(ok, f.qual + "#loop", "one pass over (name, placeholders) pairs in declaration order" if ok else f"parameter loop iterates {norm(lp.iter)[:80]}", where=f, node=lp.iter)
    if not ok:
        return
    pv = tgt.elts[1].id
    paths = enumerate_paths(lp.body, containers=set())
    live = [q for q in paths if q.exit == "fall"]
    for q in paths:
        if q.exit in ("continue", "break", "return"):
            ctx.fail(f.qual + "#advance-once", f"{q.exit} inside the parameter loop leaves a parameter without consuming its columns", where=f, node=q.exit_node)
    carried = {nm for q in live for nm, val in q.env.items() if nm.isidentifier() and nm in names_in(val)}
    if len(carried) != 1:
        ctx.fail(f.qual + "#cursor", f"expected one column cursor advanced inside the parameter loop, found {sorted(carried)} (the position of a parameter is not its column offset: a vector parameter takes several columns)", where=f, node=lp)
        return
    cur = next(iter(carried))
    inits = [st for st, val in local_defs(f, cur) if isinstance(val, ast.Constant) and not contains(lp, st)]
    ok = len(inits) == 1 and inits[0].value.value == 0
    ctx.check(ok, f.qual + "#reset", f"`{cur}` starts at column 0" if ok else f"column cursor `{cur}` does not start at 0", where=f, node=inits[0] if inits else lp)
    wlen = to_poly(ast.parse(f"len({pv})", mode="eval").body)
    one = to_poly(ast.Constant(value=1))
    n = 0
    for q in live:
        scalar = q.holds(f"len({pv}) == 1") is True
        fin = q.env.get(cur)
        adv = (to_poly(fin) - to_poly(ast.Name(id=cur, ctx=ast.Load()))) if fin is not None else None
        okadv = adv is not None and (adv == wlen or (scalar and adv == one))
        tag = "scalar" if scalar else "vector"
        ctx.check(okadv, f.qual + f"#advance:{tag}", f"cursor advances by the number of placeholders ({tag})" if okadv else (f"cursor `{cur}` is not advanced for a {tag} parameter" if fin is None else f"cursor becomes {norm(fin)} instead of {cur} + len({pv}) for a {tag} parameter"), where=f, node=lp)
        n += 1
        # the columns read start at the cursor
        reads = [sub_ for e_ in q.effects if e_.value is not None for sub_ in ast.walk(e_.value) if isinstance(sub_, ast.Subscript) and dotted(sub_.value) == "custom_data"]
        if not reads:
            ctx.fail(f.qual + f"#read-{tag}", f"a {tag} parameter stores nothing read from the table", where=f, node=lp)
        for rd in reads:
            used = names_in(rd.slice)
            okr = cur in used and (not scalar or dotted(rd.slice) == cur)
            ctx.check(okr, f.qual + f"#read-{tag}", "columns are counted from the cursor" if okr else f"a {tag} parameter reads custom_data[{norm(rd.slice)[:60]}]: not the column(s) at the cursor", where=f, node=lp)
            n += 1
    ctx.floor(n, 4)


def r10_values_as_written(ctx):
    """"Exactly the requested values": a value list given as an expression is evaluated to the numbers it denotes, element by element, unrounded and in order (eval_range; shared with C12.R7)."""
    from props.C12 import r7_range_expressions

    r7_range_expressions(ctx)


def r11_swept_readout_is_applied(ctx):
    """"Runs exactly the requested parameter space": a swept observation.readout.times reaches the run on the sequential and on the dask path (shared with C07.R13)."""
    from props.C07 import r13_swept_readout_reaches_both_paths

    r13_swept_readout_reaches_both_paths(ctx)


RULES = [r11_swept_readout_is_applied, r10_values_as_written, r9_dask_column_cursor, r8_parameters_applied_in_given_order, r7_dask_grid_labels, r1_enabled_filter, r2_run_space, r3_column_cursor, r4_entry_wiring, r5_names_and_zips, r6_validation_first]
