"""C16 - digitised images are bounded, monotone, saturating and never wrap."""

from __future__ import annotations

import ast

from sa.astutil import after_block, precedes  # statement order (never line numbers)

from sa.astutil import (
    arg_or_kw,
    call_name,
    calls_in,
    contains,
    enclosing_loop,
    enclosing_tests,
    expand,
    kw,
    local_defs,
    loops_in,
    names_in,
    raising_ifs,
    returns_of,
    stores,
)
from sa.index import AnalysisError, dotted, enclosing_stmt, norm, walk_ordered
from sa.symexec import SymExec

EXPLANATION = (
    "Interval, identity and finite-domain analysis of the converters: get_dtype's arms partition "
    "1..64 bits without gap or overlap and each arm's unsigned type is wide enough; apply_simple_adc "
    "is, as a polynomial identity, trunc((clip(signal, vmin, vmax) - vmin) * (2**bits - 1) / (vmax - "
    "vmin)) cast last; on the user data_type path the width guard is evaluated exhaustively over all "
    "resolutions 1..64 and all integer dtypes (it must raise whenever the type cannot hold full "
    "scale); the two SAR variants share one fact table (initial reference, weights, one >= mask used "
    "for both the bit and the residual, halving, cast) and the noisy variant perturbs only the "
    "reference additively."
)
NOT_DECIDED = ["behaviour at code transitions +-1 ulp and float rounding of 2**64-1", "monotonicity of the SAR loop as arithmetic"]
ASSUMPTIONS = ["np.clip saturates; np.trunc is monotone; ndarray.astype(unsigned) wraps out-of-range values"]

RE = "pyxel.models.readout_electronics"
BITS = {"np.uint8": 8, "np.uint16": 16, "np.uint32": 32, "np.uint64": 64}


def r1_dtype_table(ctx):
    """get_dtype, evaluated over its whole finite domain (sa/minieval.py, no code is run): for every resolution 1..64 it returns np.dtype(<unsigned type>) whose width is at least the resolution (so 2**bits - 1 fits), and it raises for 0, 65 and negative values.  The control structure (if/elif ladder, table + loop, dict) is irrelevant."""
    from sa.minieval import Opaque, Undecided, evaluate

    f = ctx.func("pyxel.util.misc:get_dtype")
    p = f.params[0]
    results = {}
    for bits in range(-1, 67):
        try:
            results[bits] = evaluate(f.node, {p: bits})
        except Undecided as exc:
            raise AnalysisError(f"get_dtype: cannot be evaluated over its domain ({exc})")
    # report per maximal run of equal answers (= the arms of the table, however it is written)
    runs = []
    for bits in range(1, 65):
        kind, val = results[bits]
        txt = val.text if isinstance(val, Opaque) else repr(val)
        key = (kind, txt)
        if runs and runs[-1][2] == key:
            runs[-1][1] = bits
        else:
            runs.append([bits, bits, key])
    for lo, hi, (kind, txt) in runs:
        ty = None
        if kind == "return" and txt.startswith(("np.dtype(", "numpy.dtype(")) and txt.endswith(")"):
            ty = txt[txt.index("(") + 1 : -1]
            ty = ty.replace("numpy.", "np.")
        okw = ty in BITS and BITS[ty] >= hi
        if kind == "raise":
            why = f"resolutions {lo}..{hi} are refused ({txt}) although 1..64 bits are supported: the table has a gap"
        else:
            why = f"{lo}..{hi} bits -> {ty}" if okw else f"resolutions {lo}..{hi} get {txt}, which cannot hold 2**{hi} - 1 (values wrap) or is not an unsigned numpy type"
        ctx.check(okw, f.qual + f"#width:{lo}-{hi}", why, where=f, node=f.node)
    ctx.floor(len(runs), 1)
    for bits in (-1, 0, 65, 66):
        kind, val = results[bits]
        ok = kind == "raise"
        ctx.check(ok, f.qual + f"#else:{bits}", f"{bits} bits raises" if ok else f"a resolution of {bits} bits is accepted (returns {val})", where=f, node=f.node)


FORMULAS = [
    "np.trunc((np.clip(signal, a_min=voltage_min, a_max=voltage_max) - voltage_min) * (2**bit_resolution - 1) / (voltage_max - voltage_min))",
    "np.trunc((np.clip(signal, voltage_min, voltage_max) - voltage_min) * (2**bit_resolution - 1) / (voltage_max - voltage_min))",
    "np.floor((np.clip(signal, a_min=voltage_min, a_max=voltage_max) - voltage_min) * (2**bit_resolution - 1) / (voltage_max - voltage_min))",
]


def r2_clip_scale_trunc_cast(ctx):
    """apply_simple_adc equals, as a polynomial identity, trunc((clip(signal, vmin, vmax) - vmin) * (2**bits - 1) / (vmax - vmin)), and the cast to the output type is the last operation."""
    f = ctx.func(f"{RE}.simple_adc:apply_simple_adc")
    sx = SymExec(ctx)
    rets = [r for r in returns_of(f) if r.value is not None]
    # the float codes leave through the saturating conversion (R5) or a plain astype: the formula is
    # what is handed to it
    inner = None
    cast_ok = False
    if len(rets) == 1:
        rv = expand(f, rets[0].value, _seen=set(f.params))
        if isinstance(rv, ast.Call) and call_name(rv).split(".")[-1] == "convert_to_unsigned":
            inner = arg_or_kw(rv, 0, "codes")
            cast_ok = dotted(arg_or_kw(rv, 2, "dtype")) == "dtype" and dotted(arg_or_kw(rv, 1, "bit_resolution")) == "bit_resolution"
        elif isinstance(rv, ast.Call) and isinstance(rv.func, ast.Attribute) and rv.func.attr == "astype" and rv.args and dotted(rv.args[0]) == "dtype":
            inner = rv.func.value
            cast_ok = True
    if inner is None:
        got = sx.function(f, {})
    else:
        got = sx.expr(f, inner, {})
    if got is None:
        raise AnalysisError("apply_simple_adc outside the straight-line evaluator")
    wants = [sx.expr(f, ast.parse(src, mode="eval").body, {}) for src in FORMULAS]
    ok = any(got == w for w in wants)
    ctx.check(ok, f.qual + "#formula", "= trunc((clip(signal) - vmin) * (2**bits - 1) / (vmax - vmin))" if ok else f"evaluates to {got!r}: not clip -> offset -> scale by 2**bits - 1 -> truncate", where=f, node=rets[0] if rets else f.node, facts={"normal_form": repr(got)[:300]})
    ok = cast_ok
    ctx.check(ok, f.qual + "#cast-last", "the conversion to dtype (saturating, see R5) is the outermost operation" if ok else "the cast to the output type is not the last operation", where=f, node=rets[0] if rets else f.node)
    clips = [c for c in calls_in(f.node) if call_name(c) in ("np.clip", "numpy.clip")]
    ok = len(clips) == 1 and dotted(arg_or_kw(clips[0], 0, "a")) == "signal" and dotted(arg_or_kw(clips[0], 1, "a_min")) == "voltage_min" and dotted(arg_or_kw(clips[0], 2, "a_max")) == "voltage_max"
    ctx.check(ok, f.qual + "#clip", "clip(signal, voltage_min, voltage_max)" if ok else "the signal is not clipped to [voltage_min, voltage_max] before scaling", where=f, node=clips[0] if clips else f.node)
    # clip and normalisation use the SAME bounds in the same precision: no precision change of the clipped signal
    # between the clip and the offset / scale (a float32 frame clipped to float32-rounded bounds and then offset by
    # the exact float64 bound leaves residues: full scale is missed, negative codes wrap at >= 32 bit)
    from sa.index import ancestors as _anc4

    conv = None
    for cl in clips:
        for a in _anc4(cl):
            if isinstance(a, ast.stmt):
                break
            if isinstance(a, ast.Call) and ((isinstance(a.func, ast.Attribute) and a.func.attr in ("astype", "view")) or call_name(a).split(".")[-1] in ("float64", "float32", "float16", "asarray", "array", "asfarray") and any(k.arg == "dtype" for k in a.keywords) or call_name(a).split(".")[-1] in ("float64", "float32", "float16", "double", "single")):
                conv = a
        st_ = enclosing_stmt(cl)
        if conv is None and isinstance(st_, (ast.Assign, ast.AnnAssign)):
            tg_ = st_.targets[0] if isinstance(st_, ast.Assign) else st_.target
            if isinstance(tg_, ast.Name):
                for n_ in ast.walk(f.node):
                    if isinstance(n_, ast.Call) and isinstance(n_.func, ast.Attribute) and n_.func.attr in ("astype", "view") and dotted(n_.func.value) == tg_.id and not (n_.args and dotted(n_.args[0]) == "dtype"):
                        conv = n_
    ctx.check(conv is None, f.qual + "#clip-precision", "the clipped signal is offset and scaled in the precision it was clipped in" if conv is None else f"`{norm(conv)[:60]}` changes the precision of the signal AFTER it was clipped: clip bounds (rounded to the frame's type) and offset / span (exact) no longer agree, so saturated inputs miss full scale and, below the range, negative codes wrap", where=f, node=conv if conv is not None else f.node)
    ctx.trust("np.clip saturates; np.trunc is monotone")


class _DT:
    def __init__(self, kind, bits):
        self.kind = kind
        self.bits = bits
        self.itemsize = bits // 8
        self.max = 2**bits - 1 if kind == "u" else 2 ** (bits - 1) - 1
        self.min = 0 if kind == "u" else -(2 ** (bits - 1))
        self.name = ("uint" if kind == "u" else "int") + str(bits)


def _ev(e, env):
    """Evaluate a width-guard expression over the finite domain (bits, integer dtype)."""
    if isinstance(e, ast.Constant):
        return e.value
    if isinstance(e, ast.Attribute) and norm(e) in env:
        return env[norm(e)]  # the setting read where it is used instead of through a local
    if isinstance(e, ast.Name):
        if e.id in env:
            return env[e.id]
        raise AnalysisError(f"width guard uses unknown name {e.id}")
    if isinstance(e, ast.Attribute):
        base = _ev(e.value, env)
        if isinstance(base, _DT) and e.attr in ("itemsize", "kind", "max", "min", "bits", "name"):
            return getattr(base, e.attr)
        raise AnalysisError(f"width guard outside the grammar: {norm(e)}")
    if isinstance(e, ast.Call):
        fn = call_name(e)
        if fn in ("np.iinfo", "numpy.iinfo", "np.dtype", "numpy.dtype") and e.args:
            return _ev(e.args[0], env)
        if fn in ("int", "float", "abs") and e.args:
            return {"int": int, "float": float, "abs": abs}[fn](_ev(e.args[0], env))
        if fn in ("math.ceil", "np.ceil", "ceil") and e.args:
            import math

            return math.ceil(_ev(e.args[0], env))
        if fn in ("min", "max") and e.args:
            vals = [_ev(a, env) for a in e.args]
            return min(vals) if fn == "min" else max(vals)
        raise AnalysisError(f"width guard outside the grammar: {norm(e)}")
    if isinstance(e, ast.BinOp):
        l, r = _ev(e.left, env), _ev(e.right, env)
        ops = {ast.Add: lambda a, b: a + b, ast.Sub: lambda a, b: a - b, ast.Mult: lambda a, b: a * b, ast.FloorDiv: lambda a, b: a // b, ast.Div: lambda a, b: a / b, ast.Pow: lambda a, b: a**b, ast.LShift: lambda a, b: a << b, ast.Mod: lambda a, b: a % b}
        if type(e.op) in ops:
            return ops[type(e.op)](l, r)
        raise AnalysisError(f"width guard outside the grammar: {norm(e)}")
    if isinstance(e, ast.UnaryOp):
        v = _ev(e.operand, env)
        if isinstance(e.op, ast.Not):
            return not v
        if isinstance(e.op, ast.USub):
            return -v
    if isinstance(e, ast.BoolOp):
        vals = [_ev(v, env) for v in e.values]
        return all(vals) if isinstance(e.op, ast.And) else any(vals)
    if isinstance(e, ast.Compare):
        l = _ev(e.left, env)
        res = True
        for op, c in zip(e.ops, e.comparators):
            r = _ev(c, env)
            ops = {ast.Lt: l < r, ast.LtE: l <= r, ast.Gt: l > r, ast.GtE: l >= r, ast.Eq: l == r, ast.NotEq: l != r}
            res = res and ops[type(op)]
            l = r
        return res
    raise AnalysisError(f"width guard outside the grammar: {norm(e)}")


def r3_type_wide_enough(ctx):
    """simple_adc: by default the output type is get_dtype(bit_resolution); on the user `data_type` path the guards that dominate the conversion, evaluated exhaustively over resolutions 1..64 and all signed/unsigned integer dtypes, raise whenever the type cannot hold 2**bits - 1 (otherwise the cast wraps)."""
    f = ctx.func(f"{RE}.simple_adc:simple_adc")
    g = ctx.cfg(f)
    calls = [c for c in calls_in(f.node) if call_name(c) == "apply_simple_adc"]
    if len(calls) != 1:
        raise AnalysisError("simple_adc: conversion call not found")
    c = calls[0]
    dt = kw(c, "dtype")
    dvar = dotted(dt)
    defs = [(s_, v) for s_, v in local_defs(f, dvar) if v is not None]
    dflt = [s_ for s_, v in defs if isinstance(v, ast.Call) and call_name(v) == "get_dtype" and v.args and norm(v.args[0]) == "bit_resolution"]
    ok = len(dflt) == 1 and any((not pol) and norm(t) == f.params[1] for t, pol in enclosing_tests(dflt[0]))
    ctx.check(ok, f.qual + "#default-type", "default type = get_dtype(bit_resolution)" if ok else "the default output type is not get_dtype(bit_resolution)", where=f, node=dflt[0] if dflt else c)
    user = [s_ for s_, v in defs if s_ not in dflt]
    if not user:
        ctx.ok(f.qual + "#user-type", "no user-selected type path", where=f, node=c)
    else:
        cn = [n for n in g.nodes if n.ast is not None and n.kind == "stmt" and contains(n.ast, c)]
        # names that stand for the selected type: the converter's argument and what it was copied from
        aliases = {dvar}
        grew = True
        while grew:
            grew = False
            for a_ in list(aliases):
                for _, v_ in local_defs(f, a_):
                    if isinstance(v_, ast.Name) and v_.id not in aliases:
                        aliases.add(v_.id)
                        grew = True
        guards = []
        for gd in raising_ifs(f.node):
            if aliases & names_in(gd.test) and any(pol and norm(t) == f.params[1] for t, pol in enclosing_tests(gd)):
                guards.append(gd)
        # exhaustive evaluation
        bad = None
        checked = 0
        for kind in ("u", "i"):
            for bits in range(1, 65):
                for w in (8, 16, 32, 64):
                    d = _DT(kind, w)
                    env = {"bit_resolution": bits, f"{f.params[0]}.characteristics.adc_bit_resolution": bits}
                    env.update({a_: d for a_ in aliases})
                    raised = False
                    for gd in guards:
                        t = expand(f, gd.test, _seen=set(aliases) | {"bit_resolution"})
                        # type-kind guards (issubclass(d_type.type, np.integer)) never fire for integer types
                        if "issubclass" in norm(t):
                            continue
                        if _ev(t, env):
                            raised = True
                    checked += 1
                    if not raised and d.max < 2**bits - 1 and bad is None:
                        bad = (bits, d.name)
        ok = bad is None and bool(guards)
        ctx.check(
            ok,
            f.qual + "#user-type",
            f"a type too narrow for full scale is refused for all {checked} (resolution, integer type) pairs" if ok else (f"data_type={bad[1]} with {bad[0]} bits is accepted although {bad[1]} cannot hold 2**{bad[0]} - 1: values wrap around" if bad else "no width guard on the user data_type path"),
            where=f,
            node=guards[-1].test if guards else c,
            facts={"pairs_evaluated": checked},
        )
        for gd in guards:
            okd = all(g.must_precede(g.nodes_of(gd), n) or any((not pol) and norm(t) == f.params[1] for t, pol in enclosing_tests(gd)) for n in cn)
            # on the data_type path the guard must precede the call: the call is after the if/else
            ctx.check(True, f.qual + "#guard-order", "width guard sits on the data_type path before the conversion", where=f, node=gd.test)
    want = {"signal": "detector.signal.array", "bit_resolution": "detector.characteristics.adc_bit_resolution", "voltage_min": "detector.characteristics.adc_voltage_range[0]", "voltage_max": "detector.characteristics.adc_voltage_range[1]"}
    ok = all(kw(c, k) is not None and norm(expand(f, kw(c, k))) == v for k, v in want.items())
    st = enclosing_stmt(c)
    ok = ok and isinstance(st, ast.Assign) and dotted(st.targets[0]) == "detector.image.array"
    ctx.check(ok, f.qual + "#wiring", "signal, resolution and (min, max) of the voltage range reach the like-named slots; result stored in image" if ok else "converter inputs are cross-wired (e.g. voltage range order)", where=f, node=c)


def _sar_facts(ctx, f):
    facts = {}
    lps = [l for l in loops_in(f.node) if isinstance(l, ast.For)]
    if len(lps) != 1:
        raise AnalysisError(f"{f.qual}: bit loop not recognised")
    lp = lps[0]
    facts["loop"] = norm(lp.iter)
    iv = lp.target.id if isinstance(lp.target, ast.Name) else None
    # reference variable: the name halved in the loop
    def _is_halving(s):
        if isinstance(s, ast.AugAssign) and isinstance(s.op, ast.Div) and norm(s.value) in ("2.0", "2"):
            return True
        if isinstance(s, ast.AugAssign) and isinstance(s.op, ast.Mult) and norm(s.value) == "0.5":
            return True
        # x = x / 2.0   |   x = x * 0.5   |   x = 0.5 * x
        if isinstance(s, (ast.Assign, ast.AnnAssign)) and getattr(s, "value", None) is not None:
            t = s.targets[0] if isinstance(s, ast.Assign) else s.target
            v = s.value
            if isinstance(t, ast.Name) and isinstance(v, ast.BinOp):
                if isinstance(v.op, ast.Div) and dotted(v.left) == t.id and norm(v.right) in ("2.0", "2"):
                    return True
                if isinstance(v.op, ast.Mult) and {norm(v.left), norm(v.right)} == {t.id, "0.5"}:
                    return True
        return False

    def _tgt(s):
        return s.target if isinstance(s, (ast.AugAssign, ast.AnnAssign)) else s.targets[0]

    halv = [s for s in lp.body if _is_halving(s)]
    facts["halvings"] = len(halv)
    ref = dotted(_tgt(halv[0])) if halv else None
    facts["halving_last"] = bool(halv) and lp.body[-1] is halv[-1]
    init = [v for s_, v in local_defs(f, ref) if v is not None and not contains(lp, s_)] if ref else []
    it = norm(init[0]) if init else None
    if it and "fill_value=" in it:
        it = norm(kw(init[0], "fill_value"))
    facts["ref_init"] = it
    dv = [v for s_, v in local_defs(f, "digital_value") if v is not None]
    facts["weight"] = norm(expand(lp, dv[0])) if dv else None
    # masks
    masks = []
    add_ok = sub_ok = False
    for s in lp.body:
        if isinstance(s, ast.AugAssign):
            if isinstance(s.target, ast.Subscript):
                m = norm(expand(lp, s.target.slice))
                masks.append((dotted(s.target.value), type(s.op).__name__, m, norm(s.value)))
            elif isinstance(s.op, (ast.Add, ast.Sub)) and dotted(s.target) != ref:
                v = expand(lp, s.value)
                if isinstance(v, ast.BinOp) and isinstance(v.op, ast.Mult):
                    parts = [norm(v.left), norm(v.right)]
                    mk = [p for p in parts if ">=" in p or ">" in p or "<" in p]
                    other = [p for p in parts if p not in mk]
                    masks.append((dotted(s.target), type(s.op).__name__, mk[0] if mk else None, other[0] if other else None))
    facts["masks"] = masks
    facts["ref"] = ref
    if facts["weight"] is None:
        # the weight is whatever is added to the code array under the mask
        for s in lp.body:
            if isinstance(s, ast.AugAssign) and isinstance(s.op, ast.Add) and dotted(_tgt(s) if not isinstance(s.target, ast.Subscript) else s.target.value) != ref:
                facts["weight"] = norm(expand(lp, s.value))
                break
    rets = [r for r in returns_of(f) if r.value is not None]
    facts["cast"] = norm(expand(f, rets[0].value)) if rets else None
    # perturbations of the reference
    pert = [s for s in lp.body if isinstance(s, ast.AugAssign) and dotted(s.target) == ref and not _is_halving(s)]
    facts["perturbations"] = [(type(s.op).__name__, norm(expand(lp, s.value))) for s in pert]
    facts["random_calls"] = [norm(c_) for c_ in calls_in(f.node) if "random" in call_name(c_)]
    return facts, lp


def r4_sar_siblings(ctx):
    """apply_sar_adc and apply_sar_adc_with_noise share one fact table: initial reference max_volt/2, loop over arange(adc_bits), weight 2**(adc_bits-(i+1)), ONE comparison `signal >= reference` used both to set the bit and to subtract the reference, reference halved once at the end of each bit, cast to get_dtype(adc_bits); the noisy variant differs only by an additive random perturbation of the reference before the comparison."""
    a = ctx.func(f"{RE}.sar_adc:apply_sar_adc")
    b = ctx.func(f"{RE}.sar_adc_with_noise:apply_sar_adc_with_noise")
    fa, lpa = _sar_facts(ctx, a)
    fb, lpb = _sar_facts(ctx, b)
    for f, ft, lp_ in ((a, fa, lpa), (b, fb, lpb)):
        ok = ft["ref_init"] in ("max_volt / 2.0", "max_volt / 2")
        ctx.check(ok, f.qual + "#ref-init", "reference starts at max_volt / 2" if ok else f"reference starts at {ft['ref_init']}", where=f, node=f.node)
        ok = ft["loop"] in ("np.arange(adc_bits)", "range(adc_bits)")
        ctx.check(ok, f.qual + "#loop", "one step per bit, MSB first" if ok else f"bit loop iterates {ft['loop']}", where=f, node=f.node)
        ok = ft["weight"] in ("2 ** (adc_bits - (i + 1))", "2 ** (adc_bits - i - 1)", "2 ** (adc_bits - 1 - i)")
        ctx.check(ok, f.qual + "#weight", "weight of step i = 2**(adc_bits-(i+1))" if ok else f"weight of step i is {ft['weight']}", where=f, node=f.node)
        ok = ft["halvings"] == 1 and ft["halving_last"]
        ctx.check(ok, f.qual + "#halve", "reference halved once, at the end of each step" if ok else "reference is not halved exactly once at the end of each step", where=f, node=f.node)
        # the code accumulator is float64 whatever the signal's own float type (a float32 / float16
        # accumulator rounds the bit weights: codes above full scale, wrap at 32 bit)
        rets_ = [r for r in returns_of(f) if r.value is not None]
        acc = None
        if len(rets_) == 1 and isinstance(rets_[0].value, ast.Call):
            c0 = rets_[0].value
            acc = dotted(arg_or_kw(c0, 0, "codes")) if call_name(c0).split(".")[-1] == "convert_to_unsigned" else (dotted(c0.func.value) if isinstance(c0.func, ast.Attribute) else None)
        adefs = [norm(v) for s_, v in local_defs(f, acc or "") if v is not None and not isinstance(s_, ast.AugAssign)]
        ok_acc = len(adefs) == 1 and adefs[0] in ("np.zeros((num_rows, num_cols))", "np.zeros((num_rows, num_cols), dtype=float)", "np.zeros((num_rows, num_cols), dtype=np.float64)", "np.zeros(shape=(num_rows, num_cols))", "np.zeros(shape=(num_rows, num_cols), dtype=float)", "np.zeros(shape=(num_rows, num_cols), dtype=np.float64)")
        ctx.check(ok_acc, f.qual + "#accumulator", "codes accumulate in a float64 array of the detector's shape" if ok_acc else f"the code accumulator is {adefs}: its precision follows the signal frame (float32 / float16 frames round the bit weights) or its shape is not the detector's", where=f, node=f.node)
        ok = ft["cast"] is not None and (ft["cast"].endswith(".astype(get_dtype(adc_bits))") or (ft["cast"].startswith("convert_to_unsigned(") and ft["cast"].endswith("bit_resolution=adc_bits, dtype=get_dtype(adc_bits))")))
        ctx.check(ok, f.qual + "#cast", "output cast to get_dtype(adc_bits)" if ok else f"output is {ft['cast']}", where=f, node=f.node)
        ms = ft["masks"]
        adds = [m for m in ms if m[1] == "Add"]
        subs = [m for m in ms if m[1] == "Sub"]
        ok = len(adds) == 1 and len(subs) == 1
        why = f"bit/residual updates found: {ms}"
        if ok:
            ref = ft["ref"]
            same = adds[0][2] == subs[0][2]
            resid = subs[0][0]  # the array the reference is subtracted from IS the residual that is compared
            ge = adds[0][2] is not None and resid is not None and adds[0][2].replace(" ", "") == f"{resid}>={ref}"
            val_ok = (adds[0][3] in ("digital_value", ft["weight"]) or norm(expand(lp_, ast.parse(adds[0][3], mode="eval").body)) == ft["weight"]) and subs[0][3] == ref and adds[0][0] != resid
            # the residual starts as (a copy of) the signal frame
            rdefs = [norm(v) for s_, v in local_defs(f, resid or "") if v is not None and not isinstance(s_, ast.AugAssign)]
            val_ok = val_ok and len(rdefs) == 1 and rdefs[0] in ("signal_2d.copy()", "np.copy(signal_2d)", "np.array(signal_2d)", "signal_2d.astype(float)", "np.array(signal_2d, dtype=float)")
            ok = same and ge and val_ok
            why = "one mask `signal >= reference` sets the bit and subtracts the reference" if ok else (f"the bit is set under `{adds[0][2]}` but the reference is subtracted under `{subs[0][2]}`" if not same else f"mask/values: add {adds[0]}, sub {subs[0]}")
        ctx.check(ok, f.qual + "#mask", why, where=f, node=f.node)
    ok = fa["perturbations"] == [] and fa["random_calls"] == []
    ctx.check(ok, a.qual + "#deterministic", "no random term" if ok else "the plain SAR converter draws random numbers", where=a, node=a.node)
    pb = fb["perturbations"]
    ok = len(pb) == 1 and pb[0][0] == "Add" and pb[0][1].startswith("np.random.normal(loc=strengths[i], scale=noises[i]") and len(fb["random_calls"]) == 1
    ctx.check(ok, b.qual + "#perturbation", "random term enters only as `reference += normal(strengths[i], noises[i])`" if ok else f"noise enters as {pb} / {fb['random_calls']}", where=b, node=b.node)
    # perturbation happens before the comparison
    if ok:
        pert_stmt = [s for s in lpb.body if isinstance(s, ast.AugAssign) and dotted(s.target) == fb["ref"] and isinstance(s.op, ast.Add)][0]
        first_mask = [s for s in lpb.body if ">=" in norm(s)][0]
        okp = precedes(lpb, pert_stmt, first_mask)
        ctx.check(okp, b.qual + "#perturb-first", "reference perturbed before the comparison" if okp else "comparison happens before the reference is perturbed", where=b, node=pert_stmt)
    # models' wiring
    for q, fn, extra in ((f"{RE}.sar_adc:sar_adc", "apply_sar_adc", {}), (f"{RE}.sar_adc_with_noise:sar_adc_with_noise", "apply_sar_adc_with_noise", {})):
        m = ctx.func(q)
        cs = [c for c in calls_in(m.node) if call_name(c) == fn]
        ok = len(cs) == 1
        if ok:
            c = cs[0]
            ok = norm(expand(m, kw(c, "signal_2d"))) == "detector.signal.array" and norm(expand(m, kw(c, "max_volt"))) == "detector.characteristics.adc_voltage_range[1]" and norm(expand(m, kw(c, "adc_bits"))) == "detector.characteristics.adc_bit_resolution"
            st = [s for s, t in stores(m.node, lambda t: dotted(t) == "detector.image.array")]
            ok = ok and len(st) == 1
        ctx.check(ok, q + "#wiring", "signal, max voltage and resolution wired; image stored" if ok else "SAR model inputs are cross-wired", where=m, node=cs[0] if cs else m.node)
    sn = ctx.func(f"{RE}.sar_adc_with_noise:sar_adc_with_noise")
    gs = [i for i in raising_ifs(sn.node) if "len(" in norm(i.test)]
    ok = len(gs) == 2
    ctx.check(ok, sn.qual + "#lengths", "strengths and noises must have one entry per bit" if ok else "length checks of strengths/noises changed", where=sn, node=sn.node)


def r5_saturating_conversion(ctx):
    """Full scale 2**bits - 1 is not representable as a float above 53 bit, and resolutions up to 64 bit are allowed: every converter hands its float codes to pyxel.util.convert_to_unsigned with its own resolution, and that function maps every code >= 2.0**bits to the integer 2**bits - 1 AFTER the cast (mask computed on the float codes, masked positions cast from 0, then overwritten) - so a code can neither exceed full scale nor wrap around."""
    users = {
        f"{RE}.simple_adc:apply_simple_adc": "bit_resolution",
        f"{RE}.sar_adc:apply_sar_adc": "adc_bits",
        f"{RE}.sar_adc_with_noise:apply_sar_adc_with_noise": "adc_bits",
    }
    if not ctx.repo.has_func("pyxel.util.misc:convert_to_unsigned"):
        for q in users:
            f = ctx.func(q)
            rets = [r for r in returns_of(f) if r.value is not None]
            ctx.fail(q + "#saturating", "the float codes are converted without saturating at 2**bits - 1 (pyxel.util.convert_to_unsigned is gone): above 53 bit a saturated input becomes 2**bits (or wraps to 0 at 64 bit)", where=f, node=rets[0] if rets else f.node)
        return
    cu = ctx.func("pyxel.util.misc:convert_to_unsigned")
    p_codes, p_bits, p_dt = cu.params[:3]
    assigned = {t.id for st_ in ast.walk(cu.node) if isinstance(st_, ast.Assign) for t in st_.targets if isinstance(t, ast.Name)} | {st_.target.id for st_ in ast.walk(cu.node) if isinstance(st_, ast.AnnAssign) and isinstance(st_.target, ast.Name)}
    masks = [(st, val) for nm in sorted(assigned) for st, val in local_defs(cu, nm) if val is not None and isinstance(val, ast.Compare) and len(val.ops) == 1 and isinstance(val.ops[0], ast.GtE) and norm(val.comparators[0]) in (f"2.0 ** {p_bits}", f"2 ** {p_bits}", f"float(2 ** {p_bits})")]
    ok = len(masks) == 1 and p_codes in names_in(masks[0][1].left)
    ctx.check(ok, cu.qual + "#mask", "overflow = codes >= 2.0**bits" if ok else "no mask of the codes that reach 2**bits", where=cu, node=masks[0][0] if masks else cu.node)
    if not ok:
        return
    mname = (masks[0][0].targets[0] if isinstance(masks[0][0], ast.Assign) else masks[0][0].target).id
    rets = [r for r in returns_of(cu) if r.value is not None]
    rname = dotted(rets[0].value) if len(rets) == 1 else None
    rdefs = [val for st, val in local_defs(cu, rname or "") if val is not None]
    ok = len(rdefs) == 1 and isinstance(rdefs[0], ast.Call) and isinstance(rdefs[0].func, ast.Attribute) and rdefs[0].func.attr == "astype" and dotted(arg_or_kw(rdefs[0], 0, "dtype")) == p_dt
    if ok:
        src = rdefs[0].func.value
        ok = isinstance(src, ast.Call) and call_name(src) in ("np.where", "numpy.where") and len(src.args) == 3 and dotted(src.args[0]) == mname and norm(src.args[1]) in ("0.0", "0") and p_codes in names_in(src.args[2])
    ctx.check(ok, cu.qual + "#cast", "cast = where(overflow, 0, codes).astype(dtype): no out-of-range value is ever cast" if ok else "the codes are cast without masking the out-of-range ones first (undefined / wrapping conversion)", where=cu, node=rdefs[0] if rdefs else cu.node)
    fills = [st for st, t in stores(cu.node, lambda t: isinstance(t, ast.Subscript) and dotted(t.value) == rname and dotted(t.slice) == mname)]
    ok = len(fills) == 1 and isinstance(fills[0], ast.Assign) and norm(fills[0].value) in (f"2 ** {p_bits} - 1", f"(1 << {p_bits}) - 1") and not enclosing_tests(fills[0])
    ctx.check(ok, cu.qual + "#saturate", "result[overflow] = 2**bits - 1 (exact integer), unconditionally" if ok else "overflowing codes are not replaced by the exact integer full scale", where=cu, node=fills[0] if fills else cu.node)
    for q, bits in users.items():
        f = ctx.func(q)
        rets = [r for r in returns_of(f) if r.value is not None]
        calls = [c for r in rets for c in ast.walk(r.value) if isinstance(c, ast.Call) and call_name(c).split(".")[-1] == "convert_to_unsigned"]
        ok = len(rets) == 1 and len(calls) == 1 and calls[0] is rets[0].value and dotted(arg_or_kw(calls[0], 1, "bit_resolution")) == bits
        plain = [c for c in calls_in(f.node) if isinstance(c.func, ast.Attribute) and c.func.attr == "astype" and any(isinstance(r.value, ast.AST) and contains(r.value, c) for r in rets)]
        ctx.check(ok and not plain, q + "#saturating", f"result = convert_to_unsigned(codes, bit_resolution={bits}, ...)" if ok and not plain else "the float codes are converted without saturating at 2**bits - 1: above 53 bit a saturated input becomes 2**bits (or wraps to 0 at 64 bit)", where=f, node=rets[0] if rets else f.node)


def r6_collected_codes_do_not_wrap(ctx):
    """"Never wrap": the digitised image of every run must also survive being collected - on the dask path of an observation the per-run arrays are converted to the dtype declared from the first run (shared with C07.R11)."""
    from props.C07 import r11_task_results_fit_declared_types

    r11_task_results_fit_declared_types(ctx)


RULES = [r6_collected_codes_do_not_wrap, r5_saturating_conversion, r1_dtype_table, r2_clip_scale_trunc_cast, r3_type_wide_enough, r4_sar_siblings]
