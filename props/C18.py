"""C18 - a detector saved to a file and loaded back is the same detector."""

from __future__ import annotations

import ast

from sa.astutil import arg_or_kw, call_name, calls_in, contains, enclosing_tests, expand, flow_closure, kw, local_defs, names_in, returns_of, stores
from sa.index import AnalysisError, ClassInfo, dotted, enclosing_stmt, norm, walk_local, walk_ordered

EXPLANATION = (
    "Writer/reader sibling analysis of detector serialisation: for CCD, CMOS, MKID and APD the keys "
    "written by to_dict under 'data' / 'properties' equal the keys consumed by from_dict and each read "
    "key flows into the like-named container; the type tag written is the one checked; the property "
    "classes' to_dict keys are exactly their constructor parameters and each value is the current "
    "value of that setting; the ASDF and HDF5 backends write and read the same top-level entries and "
    "convert the cluster table symmetrically; save/load dispatch on the same extension table; the "
    "load_detector model stores what it loaded into the running detector."
)
NOT_DECIDED = ["value equality after a real file round trip through asdf / h5py"]
ASSUMPTIONS = ["`cls(**dct)` binds dictionary keys to like-named constructor parameters"]

DETS = {
    "pyxel.detectors.ccd.ccd:CCD": "CCD",
    "pyxel.detectors.cmos.cmos:CMOS": "CMOS",
    "pyxel.detectors.mkid.mkid:MKID": "MKID",
    "pyxel.detectors.apd.apd:APD": "APD",
}
BASE_DATA = {"photon", "pixel", "signal", "image", "data", "charge", "scene"}


def _dict_literal(f, name_or_ret):
    return name_or_ret


def _written(ctx, f):
    """(top-level dict literal, data keys, properties keys) of a detector to_dict."""
    rets = [expand(f, r.value) for r in returns_of(f) if r.value is not None]
    lits = [v for v in rets if isinstance(v, ast.Dict)]
    if len(lits) != 1 or len(rets) != 1:
        raise AnalysisError(f"{f.qual}: does not return one dictionary display")
    top = lits[0]
    # sub-dictionaries may be named intermediates (`properties = {...}`): expand() already inlined them;
    # intermediates filled key by key (`d = {}; d["pixel"] = ...`) are read as the display they end up as
    from sa.astutil import dict_display

    m = {}
    for k, v in zip(top.keys, top.values):
        if not isinstance(k, ast.Constant):
            continue
        if isinstance(v, ast.Name):
            dd = dict_display(f, v.id)
            if dd is not None:
                v = dd
        elif isinstance(v, ast.Dict) and not v.keys:
            pass
        m[k.value] = v
    return top, m


def _forward_sinks(fd, nd) -> set:
    """Containers of `detector` that receive a value derived from the read ``nd`` (forward taint over
    the function's statements; a loop target is tainted inside its own loop only, so loop variables
    re-used by a later loop do not merge the flows)."""
    from sa.index import ancestors as _anc2

    taint: list[tuple[str, ast.AST]] = []  # (name, scope node)

    def tainted_in(e, where) -> bool:
        if e is None:
            return False
        if e is nd or contains(e, nd):
            return True
        for x in ast.walk(e):
            if isinstance(x, ast.Name) and isinstance(x.ctx, ast.Load):
                for nm, sc in taint:
                    if nm == x.id and (sc is fd.node or contains(sc, where)):
                        return True
        return False

    def add(nm, sc) -> bool:
        if (nm, sc) in [(a_, b_) for a_, b_ in taint]:
            return False
        taint.append((nm, sc))
        return True

    sinks: set = set()
    changed = True
    rounds = 0
    while changed and rounds < 8:
        changed = False
        rounds += 1
        for st in walk_ordered(fd.node):
            if isinstance(st, (ast.For, ast.AsyncFor)) and tainted_in(st.iter, st):
                for x in ast.walk(st.target):
                    if isinstance(x, ast.Name):
                        changed |= add(x.id, st)
            elif isinstance(st, (ast.Assign, ast.AnnAssign, ast.AugAssign)) and getattr(st, "value", None) is not None and tainted_in(st.value, st):
                for t in (st.targets if isinstance(st, ast.Assign) else [st.target]):
                    d = dotted(t) or ""
                    if d.startswith("detector."):
                        sinks.add(d.split(".")[1].lstrip("_"))
                        continue
                    base = t
                    while isinstance(base, (ast.Subscript, ast.Attribute, ast.Starred)):
                        base = base.value
                    for x in ([base] if isinstance(base, ast.Name) else [y for y in ast.walk(base) if isinstance(y, ast.Name)]):
                        if x.id != "detector":
                            changed |= add(x.id, fd.node)
            elif isinstance(st, ast.Expr) and isinstance(st.value, ast.Call) and isinstance(st.value.func, ast.Attribute):
                c = st.value
                if any(tainted_in(a_, st) for a_ in list(c.args) + [k.value for k in c.keywords]):
                    recv = dotted(c.func.value) or ""
                    if isinstance(c.func.value, ast.Name):
                        # `tmp = detector.x` directly in front of `tmp.update(..)`: the receiver IS detector.x
                        from sa.index import parent as _par

                        blk = None
                        par_ = _par(st)
                        for fld_ in ("body", "orelse", "finalbody"):
                            lst_ = getattr(par_, fld_, None)
                            if isinstance(lst_, list) and any(x is st for x in lst_):
                                blk = lst_
                        if blk is not None:
                            k_ = next(i_ for i_, x in enumerate(blk) if x is st)
                            for prev in reversed(blk[:k_]):
                                if isinstance(prev, (ast.Assign, ast.AnnAssign)) and getattr(prev, "value", None) is not None:
                                    tg_ = prev.targets if isinstance(prev, ast.Assign) else [prev.target]
                                    if len(tg_) == 1 and isinstance(tg_[0], ast.Name) and tg_[0].id == c.func.value.id:
                                        recv = dotted(prev.value) or recv
                                        break
                                if any(isinstance(n_, ast.Name) and n_.id == c.func.value.id and isinstance(n_.ctx, ast.Store) for n_ in ast.walk(prev)):
                                    break
                    if recv.startswith("detector."):
                        sinks.add(recv.split(".")[1].lstrip("_"))
                    elif isinstance(c.func.value, ast.Name) and c.func.attr in ("append", "extend", "update", "add", "setdefault", "insert"):
                        changed |= add(c.func.value.id, fd.node)
    return sinks


def r1_detector_key_parity(ctx):
    """For each detector class: the keys written under 'data' and 'properties' by to_dict are exactly the keys consumed by from_dict; every consumed key is stored into the like-named container; the written 'type' tag is the one from_dict checks; MKID = the common set + 'phase'."""
    n = 0
    common = None
    for cq, tag in DETS.items():
        ci = ctx.cls(cq)
        td = ci.methods.get("to_dict")
        fd = ci.methods.get("from_dict")
        if td is None or fd is None:
            raise AnalysisError(f"{cq}: to_dict/from_dict not found")
        top, m = _written(ctx, td)
        n += 1
        okt = set(m) == {"version", "type", "properties", "data"}
        ctx.check(okt, td.qual + "#top", "writes version/type/properties/data" if okt else f"top-level keys {sorted(m)}", where=td, node=top)
        wtag = m.get("type")
        okg = isinstance(wtag, ast.Constant) and wtag.value == tag
        chk = [c for c in ast.walk(fd.node) if isinstance(c, ast.Compare) and norm(c.left) == "dct['type']" and isinstance(c.comparators[0], ast.Constant)]
        okg = okg and len(chk) == 1 and chk[0].comparators[0].value == tag and isinstance(chk[0].ops[0], ast.NotEq)
        ctx.check(okg, td.qual + "#type", f"type tag '{tag}' written and checked" if okg else "the type tag written by to_dict is not the one from_dict checks", where=td, node=wtag if wtag is not None else top)
        data = m.get("data")
        props = m.get("properties")
        if not isinstance(data, ast.Dict) or not isinstance(props, ast.Dict):
            ctx.fail(td.qual + "#shape", "'data' / 'properties' are not dictionary literals", where=td, node=top)
            continue
        wdata = {k.value: v for k, v in zip(data.keys, data.values) if isinstance(k, ast.Constant)}
        wprops = {k.value: v for k, v in zip(props.keys, props.values) if isinstance(k, ast.Constant)}
        # reads
        rdata = {}
        rprops = {}
        for node in ast.walk(fd.node):
            key = None
            base = None
            if isinstance(node, ast.Subscript) and isinstance(node.slice, ast.Constant) and isinstance(node.slice.value, str):
                key, base = node.slice.value, dotted(node.value)
            elif isinstance(node, ast.Call) and isinstance(node.func, ast.Attribute) and node.func.attr == "get" and node.args and isinstance(node.args[0], ast.Constant):
                key, base = node.args[0].value, dotted(node.func.value)
            elif isinstance(node, ast.Compare) and isinstance(node.ops[0], ast.In) and isinstance(node.left, ast.Constant):
                key, base = node.left.value, dotted(node.comparators[0])
            if key is None:
                continue
            if base == "data":
                rdata.setdefault(key, []).append(node)
            elif base == "properties":
                rprops.setdefault(key, []).append(node)
        want = BASE_DATA | ({"phase"} if tag == "MKID" else set())
        ok = set(wdata) == set(rdata)
        miss_r = sorted(set(wdata) - set(rdata))
        miss_w = sorted(set(rdata) - set(wdata))
        ctx.check(ok, cq + "#data-keys", f"data keys written == read: {sorted(wdata)}" if ok else (f"written but never restored: {miss_r}" if miss_r else f"read but never written: {miss_w}"), where=fd if miss_r else td, node=fd.node if miss_r else data, facts={"written": sorted(wdata), "read": sorted(rdata)})
        okw = set(wdata) == want
        ctx.check(okw, cq + "#data-complete", "every container is written" if okw else f"containers written {sorted(wdata)} != {sorted(want)}", where=td, node=data)
        okp = set(wprops) == set(rprops) == {"geometry", "environment", "characteristics"}
        ctx.check(okp, cq + "#properties-keys", "geometry/environment/characteristics written and read" if okp else f"properties written {sorted(wprops)} vs read {sorted(rprops)}", where=td, node=props)
        # writer sources
        for k, v in wprops.items():
            src = norm(v)
            oks = src in (f"self.{k}.to_dict()", f"self._{k}.to_dict()")
            ctx.check(oks, cq + f"#write:{k}", f"{k} <- self.{k}.to_dict()" if oks else f"'{k}' is written from {src}", where=td, node=v)
        for k, v in wdata.items():
            # everything the written value may derive from (a named / per-branch intermediate included)
            vs_ = [d_ for _s, d_ in local_defs(td, v.id) if d_ is not None] if isinstance(v, ast.Name) else [v]
            names = {dotted(a) for e_ in (vs_ or [v]) for a in ast.walk(expand(td, e_)) if isinstance(a, ast.Attribute) and dotted(a)}
            oks = any(x in (f"self.{k}", f"self._{k}") or x.startswith(f"self.{k}.") or x.startswith(f"self._{k}.") for x in names)
            others = [b for b in want if b != k and any(x in (f"self.{b}", f"self._{b}") or x.startswith(f"self._{b}.") or x.startswith(f"self.{b}.") for x in names)]
            ctx.check(oks and not others, cq + f"#write:{k}", f"'{k}' written from the {k} container" if oks and not others else f"'{k}' is written from {sorted(names)}", where=td, node=v)
        # reader sinks: statement using data key k mutates detector.<k> / detector._<k>
        for k, nodes_ in rdata.items():
            sinks = set()
            from sa.index import ancestors as _anc

            def _sinks_of_stmt(st, must_contain=None, alias=None):
                out = set()
                tg = []
                if isinstance(st, (ast.Assign, ast.AnnAssign)):
                    tg = st.targets if isinstance(st, ast.Assign) else [st.target]
                for t in tg:
                    d = dotted(t) or ""
                    if d.startswith("detector."):
                        out.add(d.split(".")[1].lstrip("_"))
                for c in ast.walk(st):
                    if isinstance(c, ast.Call) and isinstance(c.func, ast.Attribute) and (dotted(c.func.value) or "").startswith("detector."):
                        inside = (must_contain is not None and contains(c, must_contain)) or (alias is not None and alias in {x.id for a_ in c.args for x in ast.walk(a_) if isinstance(x, ast.Name)})
                        if inside:
                            out.add(dotted(c.func.value).split(".")[1].lstrip("_"))
                return out

            for nd in nodes_:
                st = enclosing_stmt(nd)
                sinks |= _sinks_of_stmt(st, must_contain=nd)
                aliases = set()
                for a_ in _anc(nd):
                    if isinstance(a_, ast.NamedExpr) and isinstance(a_.target, ast.Name):
                        aliases.add(a_.target.id)
                    if a_ is st:
                        break
                if isinstance(st, (ast.Assign, ast.AnnAssign)):
                    for t in (st.targets if isinstance(st, ast.Assign) else [st.target]):
                        if isinstance(t, ast.Name):
                            aliases.add(t.id)
                for al in aliases:
                    for st2 in walk_ordered(fd.node):
                        if isinstance(st2, (ast.Assign, ast.AnnAssign, ast.Expr)) and st2 is not st and al in {x.id for x in ast.walk(st2) if isinstance(x, ast.Name) and isinstance(x.ctx, ast.Load)}:
                            got = _sinks_of_stmt(st2, alias=al)
                            val2 = getattr(st2, "value", None)
                            if val2 is not None and al in names_in(val2):
                                got |= {(dotted(t) or "").split(".")[1].lstrip("_") for t in (st2.targets if isinstance(st2, ast.Assign) else [getattr(st2, "target", None)]) if t is not None and (dotted(t) or "").startswith("detector.")}
                            sinks |= got
            if not sinks:
                # several hops (entry -> loop over its items -> rebuilt mapping -> detector.<k>): every store into the
                # detector whose value derives (backward data-flow closure) from an expression holding this read
                for nd in nodes_:
                    if not isinstance(nd, ast.Compare):
                        sinks |= _forward_sinks(fd, nd)
            # conditions like `"k" in data` carry no sink by themselves
            sinks.discard("")
            oks = k in sinks and not (sinks - {k})
            if not sinks and all(isinstance(x, ast.Compare) for x in nodes_):
                oks = False
            ctx.check(oks, cq + f"#read:{k}", f"'{k}' restored into detector.{k}" if oks else f"entry '{k}' is restored into {sorted(sinks) or 'nothing'}", where=fd, node=nodes_[0])
        if tag != "MKID":
            if common is None:
                common = set(wdata)
            else:
                ctx.check(set(wdata) == common, cq + "#sibling", "same data keys as the sibling detector classes" if set(wdata) == common else f"data keys differ from siblings: {sorted(set(wdata) ^ common)}", where=td, node=data)
    ctx.floor(n, 4)
    # charge sub-keys
    for cq in DETS:
        ci = ctx.cls(cq)
        td, fd = ci.methods["to_dict"], ci.methods["from_dict"]
        w = set()
        for d_ in ast.walk(td.node):
            if isinstance(d_, ast.Dict) and {getattr(k, "value", None) for k in d_.keys} == {"array", "frame"}:
                w = {"array", "frame"}
        r = {s.slice.value for s in ast.walk(fd.node) if isinstance(s, ast.Subscript) and dotted(s.value) == "charge_dct" and isinstance(s.slice, ast.Constant)}
        ok = w == r == {"array", "frame"}
        ctx.check(ok, cq + "#charge-keys", "charge array and cluster table both written and restored" if ok else f"charge entries written {sorted(w)} vs restored {sorted(r)}", where=fd, node=fd.node)
    # charge is RESTORED (array and table assigned as saved), not ACCUMULATED through the add_* API
    for cq in DETS:
        ci = ctx.cls(cq)
        fd = ci.methods["from_dict"]
        adds = [c for c in calls_in(fd.node) if isinstance(c.func, ast.Attribute) and c.func.attr.startswith("add_charge") and "charge" in (dotted(c.func.value) or "")]
        sa_ = [st for st, t in stores(fd.node, lambda t: (dotted(t) or "").endswith("charge._array"))]
        sf_ = [st for st, t in stores(fd.node, lambda t: (dotted(t) or "").endswith("charge._frame"))]
        ok = not adds and len(sa_) == 1 and len(sf_) == 1
        if ok:
            # both assignments under the same condition (the saved charge entry exists)
            ta = [(norm(t), pol) for t, pol in enclosing_tests(sa_[0])]
            tf = [(norm(t), pol) for t, pol in enclosing_tests(sf_[0])]
            ok = ta == tf
        ctx.check(ok, cq + "#charge-restored", "charge array and cluster table are assigned as saved" if ok else ("the saved clusters are ADDED through " + call_name(adds[0]) + ": the already restored array is converted and added again (charge doubled)" if adds else "charge array and cluster table are not both assigned under the same condition"), where=fd, node=(adds or sf_ or sa_ or [fd.node])[0])
    disp = ctx.func("pyxel.detectors.detector:Detector.from_dict")
    # decided per path (sa/paths.py): which class rebuilds the detector when the stored type tag is T
    from sa.paths import enumerate_paths

    arms = {}
    for q_ in enumerate_paths(disp.node.body):
        if q_.exit != "return" or q_.value is None:
            continue
        for t_, pol in q_.cond_texts():
            for tag_ in DETS.values():
                if pol and t_ in (f"dct['type'] == '{tag_}'", f"'{tag_}' == dct['type']"):
                    arms[tag_] = norm(q_.value)
    ok = arms == {t: f"{t}.from_dict(dct)" for t in DETS.values()}
    ctx.check(ok, disp.qual, "type tag dispatches to the class of the same name" if ok else f"type dispatch table {arms}", where=disp, node=disp.node)


PROP_CLASSES = [
    "pyxel.detectors.geometry:Geometry",
    "pyxel.detectors.characteristics:Characteristics",
    "pyxel.detectors.apd.apd_characteristics:APDCharacteristics",
    "pyxel.detectors.environment:WavelengthHandling",
]


def r2_ctor_todict_parity(ctx):
    """For Geometry (and its four subclasses, which inherit it), Characteristics, APDCharacteristics and WavelengthHandling: the keys of to_dict are exactly the constructor's parameters and each value is the current value of the like-named setting (private field or property); Environment writes temperature/wavelength and reads them back under the same names."""
    n = 0
    for cq in PROP_CLASSES:
        ci = ctx.cls(cq)
        td = ctx.repo.find_member(ci, "to_dict")
        init = ctx.repo.find_member(ci, "__init__")
        if td is None:
            raise AnalysisError(f"{cq}.to_dict not found")
        params = init.params[1:] if init is not None else list(ci.const_ann)
        lits = [v for _, v in local_defs(td, "dct") if isinstance(v, ast.Dict)] or [r.value for r in returns_of(td) if isinstance(r.value, ast.Dict)]
        if len(lits) != 1:
            raise AnalysisError(f"{cq}.to_dict: dictionary literal not found")
        d = lits[0]
        m = {k.value: v for k, v in zip(d.keys, d.values) if isinstance(k, ast.Constant)}
        n += 1
        ok = set(m) == set(params)
        ctx.check(ok, cq + "#keys", f"to_dict keys == constructor parameters {sorted(params)}" if ok else f"to_dict keys {sorted(set(m) ^ set(params))} do not match the constructor", where=td, node=d)
        for k, v in m.items():
            chains = {dotted(a) for a in ast.walk(v) if isinstance(a, ast.Attribute) and dotted(a)}
            cur = {f"self._{k}", f"self.{k}"}
            # the value must be able to be the CURRENT setting; a field that no setter updates is stale
            has_current = bool(chains & cur)
            foreign = [c for c in chains if c.startswith("self.") and c not in cur and not c.startswith(f"self._original_{k}")]
            ok = has_current and not foreign
            ctx.check(ok, cq + f"#value:{k}", f"{k} <- current value of {k}" if ok else (f"'{k}' is serialised from {sorted(chains)} which is not the current value of {k} (a value changed through its attribute would not be saved)" if not has_current else f"'{k}' is serialised from another setting {foreign}"), where=td, node=v)
        fdm = ctx.repo.find_member(ci, "from_dict")
        if fdm is not None:
            rets = [r for r in returns_of(fdm) if r.value is not None]
            ok = bool(rets)
            for r in rets:
                v = r.value
                if not isinstance(v, ast.Call) or call_name(v) != "cls":
                    ok = False
                    continue
                for kw_ in v.keywords:
                    if kw_.arg is None:
                        continue
                    src = expand(fdm, kw_.value)
                    reads = [s.slice.value for s in ast.walk(src) if isinstance(s, ast.Subscript) and isinstance(s.slice, ast.Constant) and isinstance(s.slice.value, str)] + [c.args[0].value for c in ast.walk(src) if isinstance(c, ast.Call) and isinstance(c.func, ast.Attribute) and c.func.attr == "get" and c.args and isinstance(c.args[0], ast.Constant)]
                    if reads and any(x != kw_.arg for x in reads):
                        ok = False
            ctx.check(ok, cq + "#from_dict", "from_dict binds every key to the like-named parameter" if ok else "from_dict binds a key to a differently named parameter", where=fdm, node=rets[0] if rets else fdm.node)
            # ... and hands the stored value over AS STORED (decided per path): only re-packing (tuple / list /
            # float / unpacking in order) - nothing that can change a valid value (min / max / sorted / abs /
            # round / clip / arithmetic), otherwise a saved detector does not load equal to itself
            from sa.paths import enumerate_paths

            CHANGING = {"min", "max", "sorted", "reversed", "abs", "round", "clip", "sort", "floor", "ceil", "int", "fabs", "absolute", "minimum", "maximum", "around", "rint", "trunc"}
            bad = None
            for q_ in enumerate_paths(fdm.node.body):
                if q_.exit != "return" or not isinstance(q_.value, ast.Call):
                    continue
                for kw_ in q_.value.keywords:
                    if kw_.arg is None:
                        continue
                    for x in ast.walk(kw_.value):
                        if (isinstance(x, ast.Call) and call_name(x).split(".")[-1] in CHANGING) or isinstance(x, (ast.BinOp, ast.UnaryOp)):
                            bad = (kw_.arg, kw_.value)
            ctx.check(bad is None, cq + "#from_dict-as-stored", "stored values are handed to the constructor as stored" if bad is None else f"from_dict rebuilds '{bad[0]}' as `{norm(bad[1])[:70]}`: a valid stored value can come back changed (save -> load is not the identity)", where=fdm, node=fdm.node)
    ctx.floor(n, 4)
    geo = ctx.cls("pyxel.detectors.geometry:Geometry")
    for sub in ctx.repo.subclasses(geo):
        bad = [m_ for m_ in ("to_dict", "from_dict") if m_ in sub.methods]
        init = sub.methods.get("__init__")
        extra = [p for p in (init.params[1:] if init else []) if p not in geo.methods["__init__"].params]
        ok = not bad and not extra
        ctx.check(ok, sub.qual, "inherits Geometry's to_dict/from_dict and adds no setting" if ok else f"subclass overrides {bad} / adds constructor parameters {extra} that to_dict does not write", where=sub, node=sub.node)
    env = ctx.cls("pyxel.detectors.environment:Environment")
    td, fd = env.methods["to_dict"], env.methods["from_dict"]
    wkeys = {k.value for d_ in ast.walk(td.node) if isinstance(d_, ast.Dict) for k in d_.keys if isinstance(k, ast.Constant)}
    rkeys = {c.args[0].value for c in ast.walk(fd.node) if isinstance(c, ast.Call) and isinstance(c.func, ast.Attribute) and c.func.attr == "get" and c.args and isinstance(c.args[0], ast.Constant)}
    ok = wkeys == rkeys == {"temperature", "wavelength"}
    ctx.check(ok, env.qual + "#keys", "temperature and wavelength written and read" if ok else f"Environment writes {sorted(wkeys)} but reads {sorted(rkeys)}", where=td, node=td.node)
    rets = [r for r in returns_of(fd) if r.value is not None]
    ok = len(rets) == 1 and isinstance(rets[0].value, ast.Call) and norm(kw(rets[0].value, "temperature")) == "dct.get('temperature')" and dotted(kw(rets[0].value, "wavelength")) == "wavelength"
    ctx.check(ok, env.qual + "#from_dict", "read keys bound to the like-named parameters" if ok else "Environment.from_dict binds keys to the wrong parameters", where=fd, node=rets[0] if rets else fd.node)
    srcs = {norm(v) for d_ in ast.walk(td.node) if isinstance(d_, ast.Dict) for k, v in zip(d_.keys, d_.values) if isinstance(k, ast.Constant) and k.value == "temperature"}
    ok = srcs == {"self._temperature"}
    ctx.check(ok, env.qual + "#value:temperature", "temperature <- current value" if ok else f"temperature serialised from {sorted(srcs)}", where=td, node=td.node)


def r3_backend_parity(ctx):
    """Detector.save/load dispatch on the same extension table to the matching writer/reader; to_asdf/to_hdf5 write self.to_dict(), from_asdf/from_hdf5 rebuild with cls.from_dict; the ASDF backend converts the cluster table to a dict on write and back to a DataFrame on read, and carries version/type/properties/data; the HDF5 backend stores and loads the three property groups and the data group."""
    det = ctx.cls("pyxel.detectors.detector:Detector")
    sv, ld = det.methods["save"], det.methods["load"]
    # the backends convert EVERY entry they are given: no comprehension over the entries filters some out
    # (a group without data variables still carries coordinates / attributes)
    for q in ("pyxel.backends.asdf:to_asdf", "pyxel.backends.asdf:from_asdf"):
        bf = ctx.func(q)
        n_c = 0
        for comp in [x for x in ast.walk(bf.node) if isinstance(x, (ast.DictComp, ast.ListComp, ast.GeneratorExp, ast.SetComp))]:
            n_c += 1
            filt = [i for gen in comp.generators for i in gen.ifs]
            ctx.check(not filt, q + f"#unfiltered:{n_c}", "every entry is converted" if not filt else f"entries are dropped on the way to / from the file (`if {norm(filt[0])[:40]}`): a container saved with such an entry is not the same after loading", where=bf, node=filt[0] if filt else comp)

    def table(f, prefix):
        out = {}
        for c in ast.walk(f.node):
            if isinstance(c, ast.If) and "extension" in norm(c.test):
                exts = tuple(sorted(x.value for x in ast.walk(c.test) if isinstance(x, ast.Constant) and isinstance(x.value, str)))
                rets = [r for r in c.body if isinstance(r, ast.Return)]
                out[exts] = norm(rets[0].value) if rets else None
        return out

    ts, tl = table(sv, "to"), table(ld, "from")
    ok = set(ts) == set(tl) and all(ts[k] == tl[k].replace("cls.from_", "self.to_") for k in ts if tl[k])
    ctx.check(ok, det.qual + "#extensions", f"save and load share the extension table {sorted(ts)}" if ok else f"save handles {ts} but load handles {tl}", where=sv, node=sv.node)
    for fmt in ("asdf", "hdf5"):
        w, r = det.methods[f"to_{fmt}"], det.methods[f"from_{fmt}"]
        wc = [c for c in calls_in(w.node) if call_name(c) == f"backends.to_{fmt}"]
        ok = len(wc) == 1 and norm(expand(w, kw(wc[0], "dct"))) == "self.to_dict()" and dotted(kw(wc[0], "filename")) == "filename"
        ctx.check(ok, w.qual, f"writes self.to_dict() through backends.to_{fmt}" if ok else "does not write self.to_dict()", where=w, node=wc[0] if wc else w.node)
        rc = [c for c in calls_in(r.node) if call_name(c) == f"backends.from_{fmt}"]
        rb = [c for c in calls_in(r.node) if call_name(c) == "cls.from_dict"]
        ok = len(rc) == 1 and len(rb) == 1 and dotted(rc[0].args[0]) == "filename"
        ctx.check(ok, r.qual, f"rebuilds with cls.from_dict(<backends.from_{fmt}>)" if ok else "does not rebuild the detector from the file's dictionary", where=r, node=r.node)
    wa = ctx.func("pyxel.backends.asdf:to_asdf")
    ra = ctx.func("pyxel.backends.asdf:from_asdf")
    def _store_path(f_, t):
        """Text of a subscript store target with a local alias of the container expanded
        (`charge = dct['data']['charge']; charge['frame'] = ..` stores into dct['data']['charge']['frame'])."""
        if isinstance(t, ast.Subscript):
            return f"{norm(expand(f_, t.value, _seen={'dct', 'af'}))}[{norm(t.slice)}]"
        return norm(t)

    wst = [s for s in walk_ordered(wa.node) if isinstance(s, ast.Assign) and _store_path(wa, s.targets[0]) == "dct['data']['charge']['frame']"]
    rst = [s for s in walk_ordered(ra.node) if isinstance(s, ast.Assign) and _store_path(ra, s.targets[0]) in ("dct['data']['charge']['frame']", "af['data']['charge']['frame']")]
    ok = len(wst) == 1 and "to_dict" in norm(expand(wa, wst[0].value)) and len(rst) == 1 and "pd.DataFrame(" in norm(expand(ra, rst[0].value))
    ctx.check(ok, wa.qual + "#frame", "cluster table: DataFrame -> dict on write, dict -> DataFrame on read" if ok else "the cluster table is not converted symmetrically by the ASDF backend", where=wa, node=wst[0] if wst else wa.node)
    from sa.astutil import dict_display as _dd

    disp_ = _dd(ra, "dct")
    entries = {k.value: v for k, v in zip(disp_.keys, disp_.values) if k is not None} if disp_ is not None else {}
    keys = set(entries)
    ok = keys == {"version", "type", "properties", "data"}
    ctx.check(ok, ra.qual + "#keys", "reads version, type, properties, data" if ok else f"from_asdf fills {sorted(keys)}", where=ra, node=ra.node)
    for k in ("properties", "data", "type"):
        if k in entries:
            v_ = entries[k]
            ok = norm(v_) == f"af['{k}']"
            ctx.check(ok, ra.qual + f"#{k}", f"{k} <- af['{k}']" if ok else f"'{k}' is read from {norm(v_)[:60]}", where=ra, node=v_)
    wh = ctx.func("pyxel.backends.hdf5:to_hdf5")
    rh = ctx.func("pyxel.backends.hdf5:from_hdf5")
    stored = {}
    for c in calls_in(wh.node):
        if call_name(c) == "_store":
            nm = kw(c, "name")
            d = kw(c, "dct")
            if isinstance(nm, ast.Constant):
                stored[nm.value] = norm(d)
    want = {"/geometry": "dct['properties']['geometry']", "/environment": "dct['properties']['environment']", "/characteristics": "dct['properties']['characteristics']", "/data": "dct['data']"}
    ok = stored == want
    ctx.check(ok, wh.qual, "stores geometry/environment/characteristics/data groups from the like-named entries" if ok else f"HDF5 groups written: {stored}", where=wh, node=wh.node)
    from sa.astutil import accumulator_comp, dict_display

    # what the reader hands out, read as the displays its dictionaries end up as (loops over the literal
    # group names are unrolled by the canonical pass, accumulate-loops read as comprehensions)
    top = dict_display(rh, "dct")
    pd_ = dict_display(rh, "properties")
    ok = top is not None and pd_ is not None
    if ok:
        tm = {k.value: v for k, v in zip(top.keys, top.values) if k is not None}
        ok = dotted(tm.get("properties")) == "properties" and dotted(tm.get("data")) == "data"
        pm = {k.value: norm(v) for k, v in zip(pd_.keys, pd_.values)}
        ok = ok and pm == {g_: f"_load(h5file, name='/{g_}')" for g_ in ("geometry", "environment", "characteristics")}
        dc = accumulator_comp(rh.node, "data")
        ok = ok and isinstance(dc, ast.DictComp) and len(dc.generators) == 1 and not dc.generators[0].ifs and norm(dc.generators[0].iter) == "h5file['/data']" and norm(dc.key) == norm(dc.generators[0].target) and norm(dc.value) == f"_load(h5file, name=f'/data/{{{norm(dc.key)}}}')"
    ctx.check(ok, rh.qual, "loads the same groups under the same names" if ok else "HDF5 reader does not load the groups the writer stores", where=rh, node=rh.node)


def r4_load_model_has_effect(ctx):
    """load_detector: the loaded detector's containers flow into attribute stores / mutating calls on the `detector` parameter (rebinding the parameter name is a dead store); type and shape are checked first."""
    f = ctx.func("pyxel.models.util:load_detector")
    d = f.params[0]
    loaded = [s_ for s_, v in [(s, getattr(s, "value", None)) for s in walk_ordered(f.node) if isinstance(s, (ast.Assign, ast.AnnAssign))] if v is not None and isinstance(v, ast.Call) and call_name(v).endswith("Detector.load")]
    if not loaded:
        ctx.fail(f.qual + "#load", "nothing is loaded", where=f, node=f.node)
        return
    lv = dotted(loaded[0].targets[0] if isinstance(loaded[0], ast.Assign) else loaded[0].target)
    rebind = [s for s, _ in local_defs(f, d)]
    effects = []
    for n in walk_ordered(f.node):
        if isinstance(n, ast.Call) and call_name(n) == "setattr" and n.args and dotted(n.args[0]) == d and lv in flow_closure(f, n.args[2]) | names_in(n.args[2]):
            effects.append(n)
        if isinstance(n, (ast.Assign, ast.AugAssign)):
            tg = n.targets if isinstance(n, ast.Assign) else [n.target]
            for t in tg:
                if isinstance(t, (ast.Attribute, ast.Subscript)) and (dotted(t) or "").startswith(d + ".") and lv in names_in(n.value):
                    effects.append(n)
        if isinstance(n, ast.Call) and isinstance(n.func, ast.Attribute) and (dotted(n.func.value) or "").startswith(d + ".") and n.func.attr in ("update", "__dict__.update") and any(lv in names_in(a) for a in n.args):
            effects.append(n)
    ok = bool(effects)
    ctx.check(ok, f.qual + "#effect", "the loaded containers are stored into the running detector" if ok else ("the loaded detector is only bound to the local name `detector`: the running detector is unchanged (dead store)" if rebind else "the loaded detector never reaches the running detector"), where=f, node=(rebind or loaded)[0])
    if ok:
        # the replacement must not depend on the CONTENT of the loaded container (an empty container
        # in the file has to replace a filled one in the running detector as well)
        for e in effects:
            for t, pol in enclosing_tests(e):
                tt = norm(t)
                fine = tt.startswith("hasattr(") or tt.endswith("is not None") or tt.endswith("is None")
                from sa.astutil import enclosing_loop as _el

                if not fine:
                    ctx.fail(f.qual + "#unconditional", f"a container is only replaced when `{tt}` holds: an empty (falsy) container in the file does not replace the running detector's content", where=f, node=t)
        # which containers are copied
        names = set()
        for e in effects:
            lp = None
            from sa.astutil import enclosing_loop

            lp = enclosing_loop(e)
            if lp is not None and isinstance(lp.iter, (ast.Tuple, ast.List)):
                names |= {x.value.lstrip("_") for x in lp.iter.elts if isinstance(x, ast.Constant)}
            elif isinstance(e, ast.Call) and isinstance(e.args[1], ast.Constant):
                names.add(e.args[1].value.lstrip("_"))
            elif isinstance(e, (ast.Assign, ast.AugAssign)):
                t = e.targets[0] if isinstance(e, ast.Assign) else e.target
                names.add((dotted(t) or "").split(".")[1].lstrip("_"))
        need = {"photon", "charge", "pixel", "signal", "image", "scene", "data"}
        okn = need <= names
        ctx.check(okn, f.qual + "#containers", f"containers replaced: {sorted(names)}" if okn else f"containers not taken from the file: {sorted(need - names)}", where=f, node=effects[0])
    from sa.astutil import raising_ifs

    gs = [norm(i.test) for i in raising_ifs(f.node)]
    ok = any("type(" in g for g in gs)
    ctx.check(ok, f.qual + "#type-check", "a detector of another type is refused" if ok else "type check missing", where=f, node=f.node)
    sd = ctx.func("pyxel.models.util:save_detector")
    ok = any(isinstance(c.func, ast.Attribute) and c.func.attr == "save" and dotted(c.func.value) == sd.params[0] and dotted(c.args[0]) == sd.params[1] for c in calls_in(sd.node))
    ctx.check(ok, sd.qual, "save_detector saves the running detector" if ok else "save_detector does not save the running detector", where=sd, node=sd.node)


def r5_result_sees_loaded_state(ctx):
    """"The final result sees the loaded state": run_pipeline reads /scene and /data from the detector after the last step, not through an alias taken earlier (shared with C03.R5)."""
    from props.C03 import r5_pass_through

    r5_pass_through(ctx)


def r6_photon_cube_saved_whole(ctx):
    """Photon.to_dict writes a 2-D photon array as (a copy of) self._array and a multi-wavelength cube as self._array.to_dict() - the stored DataArray itself with ALL its coordinates, not a reduced / re-indexed view of it (reset_coords, drop_vars, isel, ...); from_dict rebuilds it with DataArray.from_dict of the same entry."""
    td = ctx.func("pyxel.data_structure.photon:Photon.to_dict")
    fd = ctx.func("pyxel.data_structure.photon:Photon.from_dict")
    calls = [c for c in calls_in(td.node) if isinstance(c.func, ast.Attribute) and c.func.attr == "to_dict" and not c.args]
    ok = bool(calls)
    bad = None
    for c in calls:
        recv = expand(td, c.func.value)
        if dotted(recv) != "self._array":
            ok, bad = False, recv
    ctx.check(ok, td.qual + "#cube-whole", "the cube is serialised from self._array itself" if ok else (f"the cube is serialised from `{norm(bad)[:60]}`, not from the stored array: coordinates / entries it carries are missing from the file and the loaded photon differs from the saved one" if bad is not None else "the multi-wavelength photon is not serialised with to_dict()"), where=td, node=calls[0] if calls else td.node)
    # decided per path: a multi-wavelength photon (whatever the number of wavelengths) is written under 'array_3d',
    # a 2-D photon under 'array_2d' - the container keeps its kind through save / load
    from sa.paths import enumerate_paths

    for q_ in enumerate_paths(td.node.body):
        if q_.exit == "raise":
            continue
        is3d = any(pol and "DataArray" in t and "isinstance(self._array" in t for t, pol in q_.cond_texts())
        is2d = any(pol and "np.ndarray" in t and "isinstance(self._array" in t for t, pol in q_.cond_texts())
        keys_ = {k_ for k_ in q_.env if k_.startswith("dct[")}
        if is3d:
            okk = "dct['array_3d']" in keys_ and "dct['array_2d']" not in keys_
            ctx.check(okk, td.qual + "#kind:3d", "a multi-wavelength photon is always written as 'array_3d'" if okk else f"on the path {q_.cond_texts()[-2:]} a multi-wavelength photon is written as {sorted(keys_)}: it is loaded back as a photon of another kind (wavelength coordinate lost)", where=td, node=q_.exit_node or td.node)
        elif is2d:
            okk = "dct['array_2d']" in keys_ and "dct['array_3d']" not in keys_
            ctx.check(okk, td.qual + "#kind:2d", "a 2-D photon is always written as 'array_2d'" if okk else f"a 2-D photon is written as {sorted(keys_)}", where=td, node=q_.exit_node or td.node)
    fdc = [c for c in calls_in(fd.node) if call_name(c).endswith("DataArray.from_dict")]
    ok = len(fdc) >= 1
    ctx.check(ok, fd.qual + "#cube-whole", "rebuilt with DataArray.from_dict" if ok else "the cube is not rebuilt with DataArray.from_dict", where=fd, node=fdc[0] if fdc else fd.node)


RULES = [r6_photon_cube_saved_whole, r5_result_sees_loaded_state, r1_detector_key_parity, r2_ctor_todict_parity, r3_backend_parity, r4_load_model_has_effect]
