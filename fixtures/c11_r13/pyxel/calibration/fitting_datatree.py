"""Positive fixture for C11.R13: a task key that ignores one of the enclosing loops."""
from dask import delayed


class ModelFittingDataTree:
    def apply_parameters_to_processors(self, parameters):
        lst = []
        for id_processor, processor in enumerate(self.param_processor_list):
            for idx_island, params in enumerate(parameters):
                result = delayed(self._apply_parameters)(
                    processor=processor,
                    parameter=params,
                    dask_key_name=f"apply_parameters-island{idx_island}",
                )
                lst.append(result)
        return lst
