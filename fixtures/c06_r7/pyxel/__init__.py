"""fixture"""
