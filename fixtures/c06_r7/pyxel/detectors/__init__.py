"""fixture"""
