"""Positive fixture for C06.R7: a mutable class attribute shared by every instance and every deep copy."""


class Detector:
    _memory: dict = {}
    TYPE_LIST = (float, int)

    def __init__(self):
        self._x = 1
