"""Positive fixture for C19.R2 #never-deletes: a writer that removes its target in an error path."""
from pathlib import Path


def to_fits(current_output_folder: Path, data, name: str) -> Path:
    full_filename = current_output_folder / f"{name}.fits"
    try:
        write(full_filename, data)
    except Exception:
        full_filename.unlink(missing_ok=True)
        raise
    return full_filename
