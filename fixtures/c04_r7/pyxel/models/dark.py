"""Positive fixture for C04.R7: an uninitialised buffer that is only partly written."""
import numpy as np


def compute(rows, cols):
    frame = np.empty((rows, cols))
    frame[0, 0] = 1.0
    return frame
