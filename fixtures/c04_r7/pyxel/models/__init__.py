"""fixture"""
