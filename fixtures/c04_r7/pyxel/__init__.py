"""fixture"""
