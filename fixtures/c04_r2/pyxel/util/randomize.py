from contextlib import contextmanager

import numpy as np


@contextmanager
def set_random_seed(seed=None):
    if seed is not None:
        previous_state = np.random.get_state()
        try:
            np.random.seed(seed)
            yield
        finally:
            np.random.set_state(previous_state)
    else:
        yield
