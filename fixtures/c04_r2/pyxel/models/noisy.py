"""Positive fixture for C04.R2: a model that seeds the global generator itself."""
import numpy as np


def noisy_model(detector, seed=None):
    np.random.seed(seed)
    detector.pixel.array += np.random.normal(size=detector.pixel.shape)
