"""fixture"""
