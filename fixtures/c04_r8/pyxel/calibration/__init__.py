"""fixture"""
