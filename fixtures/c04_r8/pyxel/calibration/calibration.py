"""Positive fixture for C04.R8: the valid seed 0 is treated as 'no seed'."""
import numpy as np


class Calibration:
    def __init__(self, pygmo_seed=None):
        self._pygmo_seed = pygmo_seed or int(np.random.default_rng().integers(100000))
