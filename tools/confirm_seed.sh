#!/bin/sh
# usage: confirm_seed.sh <seed-id e.g. C04a> <worktree>   -- confirms a seeded change in a scratch worktree
ID=$1; WT=$2; S=/verif/seeded/$ID; OUT=/tmp/confirm/$ID; mkdir -p $OUT
cd $WT || exit 9
git checkout -q -- . ; git status --short | grep -v '^??' && { echo "worktree dirty"; exit 9; }
DEMO=$(ls $S | grep -E '^demo.*\.py$' | head -1)
run_demo() { if echo $DEMO | grep -q test; then PYTHONPATH=$WT /venv/bin/python -m pytest -q -p no:cacheprovider --basetemp=$OUT/btd $S/$DEMO; else PYTHONPATH=$WT /venv/bin/python $S/$DEMO; fi; }
run_demo > $OUT/demo_clean.log 2>&1; RC_CLEAN=$?
git apply $S/patch.diff || { echo "patch does not apply"; exit 9; }
/venv/bin/python -m compileall -q pyxel > /dev/null || { echo "does not compile"; git checkout -q -- .; exit 9; }
run_demo > $OUT/demo_patched.log 2>&1; RC_PATCHED=$?
rm -rf $OUT/bt
/venv/bin/python -m pytest -q -p no:cacheprovider -n 8 --timeout=900 --continue-on-collection-errors --basetemp=$OUT/bt --junitxml=$OUT/junit.xml > $OUT/suite.log 2>&1
cat > $OUT/cmp.py <<'PY'
import json,sys,xml.etree.ElementTree as ET
sp=set(json.load(open('/root/.vp/BASELINE.json'))['stable_pass'])
passed=set()
for fn in sys.argv[1:]:
    try:
        for tc in ET.parse(fn).iter('testcase'):
            if not [c for c in tc if c.tag in('failure','error','skipped')]:
                passed.add(tc.get('classname')+'::'+tc.get('name'))
    except Exception as e:
        pass
miss=sorted(sp-passed)
print(len(miss))
files=sorted({m.split('::')[0].replace('.','/')+'.py' for m in miss})
print(' '.join(files))
for x in miss[:10]: print(x)
PY
/venv/bin/python $OUT/cmp.py $OUT/junit.xml > $OUT/suite_cmp.txt
MISSING=$(head -1 $OUT/suite_cmp.txt)
if [ "$MISSING" != "0" ]; then
  # order/xdist dependent tests: re-run the affected files serially, still with the patch applied
  FILES=$(sed -n 2p $OUT/suite_cmp.txt)
  rm -rf $OUT/bt2
  /venv/bin/python -m pytest -q -p no:cacheprovider --timeout=900 --basetemp=$OUT/bt2 --junitxml=$OUT/junit2.xml $FILES > $OUT/suite2.log 2>&1
  /venv/bin/python $OUT/cmp.py $OUT/junit.xml $OUT/junit2.xml > $OUT/suite_cmp2.txt
  MISSING="$MISSING->$(head -1 $OUT/suite_cmp2.txt)(after serial re-run of: $FILES)"
fi
git checkout -q -- . ; rm -rf None output outputs $OUT/bt $OUT/bt2 $OUT/btd
echo "$ID demo_clean_rc=$RC_CLEAN demo_patched_rc=$RC_PATCHED stable_pass_missing=$MISSING $(tail -1 $OUT/suite.log)" | tee $OUT/result.txt
