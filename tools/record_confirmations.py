#!/usr/bin/env python3
"""Copy the outcome of tools/confirm_seed.sh (/tmp/confirm/<id>/result.txt) into seeded/<id>/meta.json."""
import json
import re
from pathlib import Path

HERE = Path(__file__).resolve().parent.parent
WHAT = (
    "demo on the clean worktree (must exit 0) and with the patch applied (must exit 1); compileall; full suite with the patch: "
    "/venv/bin/python -m pytest -q -p no:cacheprovider -n 8 --timeout=900 --basetemp=<private>; stable-pass tests missing from that "
    "run re-run serially (order/xdist dependent files); compared with /root/.vp/BASELINE.json stable_pass"
)
n = bad = 0
for d in sorted((HERE / "seeded").iterdir()):
    if not d.is_dir() or d.name.startswith("_"):
        continue
    res = Path("/tmp/confirm") / d.name / "result.txt"
    mp = d / "meta.json"
    if not res.exists() or not mp.exists():
        continue
    txt = res.read_text().strip()
    try:
        meta = json.loads(mp.read_text())
    except Exception:
        continue
    m = re.search(r"demo_clean_rc=(\d+) demo_patched_rc=(\d+) stable_pass_missing=(\S+)", txt)
    if not m:
        continue
    miss = m.group(3)
    final_missing = miss.split("->")[-1].split("(")[0]
    ok = m.group(1) == "0" and m.group(2) != "0" and final_missing == "0"
    meta["confirmation"] = {"by": "tools/confirm_seed.sh in a scratch worktree (removed afterwards)", "what_was_run": WHAT, "result": txt, "confirmed": ok}
    mp.write_text(json.dumps(meta, indent=1))
    n += 1
    if not ok:
        bad += 1
        print("NOT CONFIRMED:", d.name, txt[:160])
print(f"{n} confirmations recorded, {bad} not confirmed")
