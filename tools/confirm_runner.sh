#!/bin/sh
# processes /tmp/confirm/queue (lines: "<seed-id> <worktree>") sequentially, forever
touch /tmp/confirm/queue /tmp/confirm/done
while true; do
  L=$(grep -v -x -F -f /tmp/confirm/done /tmp/confirm/queue | head -1)
  if [ -z "$L" ]; then sleep 20; continue; fi
  set -- $L
  /verif/tools/confirm_seed.sh $1 $2 > /tmp/confirm/$1.out 2>&1
  echo "$L" >> /tmp/confirm/done
done
