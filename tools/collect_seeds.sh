#!/bin/sh
# usage: collect_seeds.sh <round dir e.g. SEED5> <letters e.g. "i j"> <props...>: copy agent output to seeded/, neutralise path assertions, queue for confirmation
R=$1; L=$2; shift 2
for c in "$@"; do for l in $L; do d=/tmp/wt/$c/$R/$l; [ -f $d/patch.diff ] || { echo "missing $d"; continue; }; [ -d /verif/seeded/$c$l ] && continue
 mkdir -p /verif/seeded/$c$l; cp $d/patch.diff $d/meta.json /verif/seeded/$c$l/; cp $d/demo*.py /verif/seeded/$c$l/ 2>/dev/null
 sed -i -E 's|^(\s*)assert (pyxel\.__file__\.startswith\("/tmp/wt/C[0-9]+/?"\)\|"/tmp/wt/C[0-9]+/?" in pyxel\.__file__), pyxel\.__file__|\1print("pyxel under test:", pyxel.__file__)|' /verif/seeded/$c$l/demo*.py
 grep -l "parents\[2\]\|/tmp/wt" /verif/seeded/$c$l/demo*.py 2>/dev/null | sed 's/^/  CHECK PATHS: /'
 echo "$c$l /tmp/wt/K6" >> /tmp/confirm/queue; done; done
