#!/usr/bin/env python3
"""Record the statement shapes and local names of every function of the reviewed tree
(reference/locals.json.gz), used by sa/names.py to rename locals of edited functions back to the
names the rules were written against.  Run on the tree the rules were reviewed on."""
import gzip
import json
import sys
from pathlib import Path

HERE = Path(__file__).resolve().parent.parent
sys.path.insert(0, str(HERE))
from sa.index import Repo  # noqa: E402
from sa.names import REF_PATH, build_reference  # noqa: E402

repo = Repo(sys.argv[1] if len(sys.argv) > 1 else "/repo")
ref = build_reference(repo)
REF_PATH.parent.mkdir(exist_ok=True)
with gzip.GzipFile(REF_PATH, "wb", mtime=0) as fh:
    fh.write(json.dumps(ref, sort_keys=True, separators=(",", ":")).encode())
print(f"{len(ref)} functions, {REF_PATH.stat().st_size} bytes")

# every function of the reviewed tree by qualified name: a function that is NOT listed was introduced
# by a later edit, and sa/inline.py treats it as a helper of its callers whatever its name
FUNCS_PATH = REF_PATH.parent / "functions.json.gz"
quals = sorted(q for q, f in repo.funcs.items() if f.outer is None)
with gzip.GzipFile(FUNCS_PATH, "wb", mtime=0) as fh:
    fh.write(json.dumps(quals, separators=(",", ":")).encode())
print(f"{len(quals)} reviewed function names, {FUNCS_PATH.stat().st_size} bytes")
