#!/usr/bin/env python3
"""Run every check against every behaviour-preserving refactoring kept under refactors/<id>/
(scratch copies outside /repo and /verif).  Every check must stay silent: any report here is a
false alarm of the machinery.  Writes refactors/RESULTS.json / RESULTS.md."""
import json
import shutil
import subprocess
import sys
import tempfile
from concurrent.futures import ThreadPoolExecutor
from pathlib import Path

HERE = Path(__file__).resolve().parent.parent
REPO = Path("/repo")
props = sorted(p.stem for p in (HERE / "props").glob("C*.py"))
ids = sorted(d.name for d in (HERE / "refactors").iterdir() if d.is_dir() and (d / "patch.diff").exists())
only = [a for a in sys.argv[1:] if not a.startswith("-")] or ids
verbose = "-v" in sys.argv


def run_one(rid):
    tmp = Path(tempfile.mkdtemp(prefix=f"refrun_{rid}_"))
    try:
        shutil.copytree(REPO / "pyxel", tmp / "pyxel")
        r = subprocess.run(["patch", "-p1", "-s", "-i", str(HERE / "refactors" / rid / "patch.diff")], cwd=tmp, capture_output=True, text=True)
        if r.returncode != 0:
            return rid, {"error": "patch does not apply: " + (r.stdout + r.stderr)[-200:]}
        out = {}
        for p in props:
            c = subprocess.run([str(HERE / "check"), p, "--repo", str(tmp), "--no-evidence"], capture_output=True, text=True, cwd=HERE)
            if c.returncode != 0:
                out[p] = [l.strip()[:400] for l in c.stdout.splitlines() if l.startswith("  ") or l.startswith("ANALYSIS-ERROR")][:8]
        return rid, out
    finally:
        shutil.rmtree(tmp, ignore_errors=True)


with ThreadPoolExecutor(max_workers=8) as ex:
    results = dict(ex.map(run_one, only))
path = HERE / "refactors" / "RESULTS.json"
old = json.loads(path.read_text()) if path.exists() else {}
old.update(results)
path.write_text(json.dumps(old, indent=1, sort_keys=True))
lines = ["| refactoring | what it changes | checks that reported (must be none) |", "|---|---|---|"]
for rid in sorted(old):
    note = ""
    np_ = HERE / "refactors" / rid / "note.txt"
    if np_.exists():
        note = " ".join(np_.read_text().split())[:200].replace("|", "/")
    lines.append(f"| {rid} | {note} | {', '.join(sorted(old[rid])) or 'none'} |")
(HERE / "refactors" / "RESULTS.md").write_text("\n".join(lines) + "\n")
noisy = {r: v for r, v in results.items() if v}
for r, v in noisy.items():
    print(r)
    for p, ls in v.items() if isinstance(v, dict) else []:
        print("  ", p)
        for l in ls if isinstance(ls, list) else [ls]:
            print("      ", l)
print(f"{len(results)} refactorings run; noisy: {sorted(noisy)}")
