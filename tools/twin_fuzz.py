#!/usr/bin/env python3
"""Automatic behaviour-preserving twins of the WHOLE package, to hunt false alarms.

Each transformation rewrites every function of /repo/pyxel in a way that cannot change behaviour,
writes the result to a scratch copy (outside /repo and /verif, removed afterwards) and runs all
checks against it.  Every report is a false alarm of the machinery.

  rename     every local variable (not parameters, not names bound by import/global/nonlocal,
             not names captured by nested functions) gets the suffix `_rn`
  retvar     `return E`  ->  `_rv = E; return _rv`   (E not a plain name / constant)
  swapif     `if c: A else: B`  ->  `if not c: B else: A`   (no elif on either side)
  unelse     `if c: A else: B` with A always leaving (return/raise/continue/break) -> `if c: A` + B
  temps      call arguments that are calls themselves are bound to a temporary first, in
             expression statements and plain assignments (`f(g(x))` -> `_t = g(x); f(_t)`), only when
             the call is the first thing evaluated (left-most), so that evaluation order is kept

usage: tools/twin_fuzz.py [transformation ...] [--props C01,C02] [-v]
"""
from __future__ import annotations

import ast
import json
import shutil
import subprocess
import sys
import tempfile
from concurrent.futures import ThreadPoolExecutor
from pathlib import Path

HERE = Path(__file__).resolve().parent.parent
REPO = Path("/repo")
ALL = ["rename", "retvar", "swapif", "unelse", "logging", "annotate", "swapassign"]


def _always_exits(stmts) -> bool:
    if not stmts:
        return False
    last = stmts[-1]
    if isinstance(last, (ast.Return, ast.Raise, ast.Continue, ast.Break)):
        return True
    if isinstance(last, ast.If):
        return _always_exits(last.body) and _always_exits(last.orelse)
    return False


# --------------------------------------------------------------------------- rename
class _Scope(ast.NodeVisitor):
    """Names that are safe to rename in one function."""

    def __init__(self, fn):
        self.fn = fn
        a = fn.args
        self.params = {x.arg for x in a.posonlyargs + a.args + a.kwonlyargs}
        if a.vararg:
            self.params.add(a.vararg.arg)
        if a.kwarg:
            self.params.add(a.kwarg.arg)
        self.stored: set[str] = set()
        self.blocked: set[str] = set()
        self.nested_free: set[str] = set()
        self.has_match = False
        for st in fn.body:
            self.visit(st)

    def visit_FunctionDef(self, n):
        self.blocked.add(n.name)
        for x in ast.walk(n):
            if isinstance(x, ast.Name):
                self.nested_free.add(x.id)
            elif isinstance(x, (ast.Global, ast.Nonlocal)):
                self.blocked |= set(x.names)

    visit_AsyncFunctionDef = visit_FunctionDef

    def visit_Lambda(self, n):
        for x in ast.walk(n):
            if isinstance(x, ast.Name):
                self.nested_free.add(x.id)

    def visit_ClassDef(self, n):
        self.blocked.add(n.name)
        for x in ast.walk(n):
            if isinstance(x, ast.Name):
                self.nested_free.add(x.id)

    def visit_Global(self, n):
        self.blocked |= set(n.names)

    visit_Nonlocal = visit_Global

    def visit_Import(self, n):
        for a in n.names:
            self.blocked.add((a.asname or a.name).split(".")[0])

    visit_ImportFrom = visit_Import

    def visit_Match(self, n):
        self.has_match = True

    def visit_Name(self, n):
        if isinstance(n.ctx, (ast.Store, ast.Del)):
            self.stored.add(n.id)

    def visit_ExceptHandler(self, n):
        if n.name:
            self.stored.add(n.name)
        self.generic_visit(n)

    def visit_Call(self, n):
        if isinstance(n.func, ast.Name) and n.func.id in ("locals", "vars", "eval", "exec"):
            self.has_match = True
        self.generic_visit(n)

    def renamable(self) -> set[str]:
        if self.has_match:
            return set()
        return {x for x in self.stored - self.params - self.blocked - self.nested_free if not x.startswith("__")}


class _Rename(ast.NodeTransformer):
    def __init__(self, names):
        self.names = names

    def visit_Name(self, n):
        if n.id in self.names:
            n.id = n.id + "_rn"
        return n

    def visit_ExceptHandler(self, n):
        self.generic_visit(n)
        if n.name in self.names:
            n.name = n.name + "_rn"
        return n

    def visit_FunctionDef(self, n):
        return n  # nested functions keep their own names (their free names were excluded)

    visit_AsyncFunctionDef = visit_Lambda = visit_ClassDef = visit_FunctionDef


def t_rename(tree):
    for fn in [n for n in ast.walk(tree) if isinstance(n, (ast.FunctionDef, ast.AsyncFunctionDef))]:
        names = _Scope(fn).renamable()
        if names:
            r = _Rename(names)
            fn.body = [r.visit(st) for st in fn.body]
    return tree


# --------------------------------------------------------------------------- retvar
class _RetVar(ast.NodeTransformer):
    def _block(self, stmts):
        out = []
        for st in stmts:
            st = self.visit(st)
            if isinstance(st, ast.Return) and st.value is not None and not isinstance(st.value, (ast.Name, ast.Constant)):
                out.append(ast.copy_location(ast.Assign(targets=[ast.Name(id="_rv", ctx=ast.Store())], value=st.value), st))
                out.append(ast.copy_location(ast.Return(value=ast.Name(id="_rv", ctx=ast.Load())), st))
            else:
                out.append(st)
        return out

    def generic_visit(self, node):
        for fld in ("body", "orelse", "finalbody"):
            lst = getattr(node, fld, None)
            if isinstance(lst, list) and lst and isinstance(lst[0], ast.stmt):
                setattr(node, fld, self._block(lst))
        if isinstance(node, ast.Try):
            for h in node.handlers:
                h.body = self._block(h.body)
        if isinstance(node, ast.Match):
            for c in node.cases:
                c.body = self._block(c.body)
        return node

    def visit_Lambda(self, n):
        return n

    def visit_FunctionDef(self, n):
        if any(isinstance(x, (ast.Yield, ast.YieldFrom)) for x in ast.walk(n)):
            # generators: `return` carries no value worth naming; still descend
            pass
        return self.generic_visit(n)

    visit_AsyncFunctionDef = visit_FunctionDef


def t_retvar(tree):
    return _RetVar().visit(tree)


# --------------------------------------------------------------------------- swapif / unelse
class _SwapIf(ast.NodeTransformer):
    def visit_If(self, n):
        self.generic_visit(n)
        if n.orelse and not (len(n.orelse) == 1 and isinstance(n.orelse[0], ast.If)) and not (len(n.body) == 1 and isinstance(n.body[0], ast.If)):
            t = n.test
            nt = t.operand if isinstance(t, ast.UnaryOp) and isinstance(t.op, ast.Not) else ast.UnaryOp(op=ast.Not(), operand=t)
            return ast.copy_location(ast.If(test=nt, body=n.orelse, orelse=n.body), n)
        return n


def t_swapif(tree):
    return ast.fix_missing_locations(_SwapIf().visit(tree))


class _UnElse(ast.NodeTransformer):
    def _block(self, stmts):
        out = []
        for st in stmts:
            st = self.visit(st)
            if isinstance(st, ast.If) and st.orelse and _always_exits(st.body) and not (len(st.orelse) == 1 and isinstance(st.orelse[0], ast.If)):
                out.append(ast.copy_location(ast.If(test=st.test, body=st.body, orelse=[]), st))
                out.extend(st.orelse)
            else:
                out.append(st)
        return out

    def generic_visit(self, node):
        for fld in ("body", "orelse", "finalbody"):
            lst = getattr(node, fld, None)
            if isinstance(lst, list) and lst and isinstance(lst[0], ast.stmt):
                setattr(node, fld, self._block(lst))
        if isinstance(node, ast.Try):
            for h in node.handlers:
                h.body = self._block(h.body)
        return node

    def visit_Lambda(self, n):
        return n


def t_unelse(tree):
    return ast.fix_missing_locations(_UnElse().visit(tree))


# --------------------------------------------------------------------------- logging / annotate / swap
class _Log(ast.NodeTransformer):
    """A harmless `logging.getLogger("twin").debug("...")` at the top of every function body and
    of every loop body (module `logging` is imported at the top of each file)."""

    def _stmt(self, at):
        call = ast.parse('__import__("logging").getLogger("twin").debug("twin")').body[0]
        return ast.copy_location(call, at)

    def visit_FunctionDef(self, n):
        self.generic_visit(n)
        if any("njit" in ast.unparse(d) or "jit" in ast.unparse(d) for d in n.decorator_list):
            return n
        body = n.body
        k = 1 if body and isinstance(body[0], ast.Expr) and isinstance(body[0].value, ast.Constant) and isinstance(body[0].value.value, str) else 0
        n.body = body[:k] + [self._stmt(body[0])] + body[k:]
        return n

    visit_AsyncFunctionDef = visit_FunctionDef

    def _loop(self, n):
        self.generic_visit(n)
        n.body = [self._stmt(n.body[0])] + n.body
        return n

    visit_For = visit_While = _loop


def _in_njit(tree):
    out = set()
    for fn in ast.walk(tree):
        if isinstance(fn, (ast.FunctionDef, ast.AsyncFunctionDef)) and any("jit" in ast.unparse(d) for d in fn.decorator_list):
            for x in ast.walk(fn):
                out.add(id(x))
    return out


class _LogSafe(_Log):
    def __init__(self, skip):
        self.skip = skip

    def _loop(self, n):
        if id(n) in self.skip:
            return n
        return super()._loop(n)

    visit_For = visit_While = _loop


def t_logging(tree):
    return ast.fix_missing_locations(_LogSafe(_in_njit(tree)).visit(tree))


class _Annotate(ast.NodeTransformer):
    """`x = E` -> `x: object = E` for a plain local name that has no annotation anywhere in the function."""

    def visit_FunctionDef(self, n):
        self.generic_visit(n)
        if any("jit" in ast.unparse(d) for d in n.decorator_list):
            return n
        annotated = {x.target.id for x in ast.walk(n) if isinstance(x, ast.AnnAssign) and isinstance(x.target, ast.Name)}
        declared = {nm for x in ast.walk(n) if isinstance(x, (ast.Global, ast.Nonlocal)) for nm in x.names}
        done = set()

        def rec(stmts):
            out = []
            for st in stmts:
                if isinstance(st, ast.Assign) and len(st.targets) == 1 and isinstance(st.targets[0], ast.Name) and st.targets[0].id not in annotated | declared | done:
                    done.add(st.targets[0].id)
                    out.append(ast.copy_location(ast.AnnAssign(target=st.targets[0], annotation=ast.Name(id="object", ctx=ast.Load()), value=st.value, simple=1), st))
                    continue
                if not isinstance(st, (ast.FunctionDef, ast.AsyncFunctionDef, ast.ClassDef)):
                    for fld in ("body", "orelse", "finalbody"):
                        sub = getattr(st, fld, None)
                        if isinstance(sub, list) and sub and isinstance(sub[0], ast.stmt):
                            setattr(st, fld, rec(sub))
                    if isinstance(st, ast.Try):
                        for h in st.handlers:
                            h.body = rec(h.body)
                out.append(st)
            return out

        n.body = rec(n.body)
        return n

    visit_AsyncFunctionDef = visit_FunctionDef


def t_annotate(tree):
    return ast.fix_missing_locations(_Annotate().visit(tree))


def _pure(e) -> bool:
    return not any(isinstance(x, (ast.Call, ast.Await, ast.Yield, ast.YieldFrom, ast.NamedExpr, ast.Subscript, ast.Attribute, ast.BinOp)) for x in ast.walk(e))


class _SwapAssign(ast.NodeTransformer):
    """Swap two adjacent plain assignments of constants / names to different names that do not
    mention each other (independent by construction)."""

    def generic_visit(self, node):
        super().generic_visit(node)
        for fld in ("body", "orelse", "finalbody"):
            lst = getattr(node, fld, None)
            if isinstance(lst, list) and lst and isinstance(lst[0], ast.stmt):
                i = 0
                while i + 1 < len(lst):
                    a, b = lst[i], lst[i + 1]
                    if all(isinstance(x, ast.Assign) and len(x.targets) == 1 and isinstance(x.targets[0], ast.Name) and _pure(x.value) for x in (a, b)):
                        na, nb = a.targets[0].id, b.targets[0].id
                        used_a = {x.id for x in ast.walk(a.value) if isinstance(x, ast.Name)}
                        used_b = {x.id for x in ast.walk(b.value) if isinstance(x, ast.Name)}
                        if na != nb and na not in used_b and nb not in used_a:
                            lst[i], lst[i + 1] = b, a
                            i += 2
                            continue
                    i += 1
        return node


def t_swapassign(tree):
    return ast.fix_missing_locations(_SwapAssign().visit(tree))


TRANSFORMS = {"rename": t_rename, "retvar": t_retvar, "swapif": t_swapif, "unelse": t_unelse, "logging": t_logging, "annotate": t_annotate, "swapassign": t_swapassign}


def build(name: str, dest: Path) -> None:
    shutil.copytree(REPO / "pyxel", dest / "pyxel")
    for path in (dest / "pyxel").rglob("*.py"):
        src = path.read_text()
        try:
            tree = ast.parse(src)
        except SyntaxError:
            continue
        new = TRANSFORMS[name](tree)
        ast.fix_missing_locations(new)
        out = ast.unparse(new)
        compile(out, str(path), "exec")
        path.write_text(out + "\n")


def main():
    args = [a for a in sys.argv[1:] if not a.startswith("-")]
    verbose = "-v" in sys.argv
    props = sorted(p.stem for p in (HERE / "props").glob("C*.py"))
    for a in sys.argv[1:]:
        if a.startswith("--props"):
            props = a.split("=", 1)[1].split(",")
    names = args or ALL
    summary = {}
    for name in names:
        tmp = Path(tempfile.mkdtemp(prefix=f"twin_{name}_"))
        try:
            build(name, tmp)

            def run(p):
                c = subprocess.run([str(HERE / "check"), p, "--repo", str(tmp), "--no-evidence"], capture_output=True, text=True, cwd=HERE)
                lines = [l.strip()[:330] for l in c.stdout.splitlines() if l.startswith("  ") or l.startswith("ANALYSIS-ERROR")]
                return p, c.returncode, lines

            with ThreadPoolExecutor(max_workers=10) as ex:
                res = list(ex.map(run, props))
            noisy = {p: lines for p, rc, lines in res if rc != 0}
            summary[name] = {p: len(v) for p, v in noisy.items()}
            print(f"== {name}: noisy checks {sorted(noisy)}")
            for p, lines in sorted(noisy.items()):
                for l in lines[: (40 if verbose else 6)]:
                    print("   ", p, l)
        finally:
            shutil.rmtree(tmp, ignore_errors=True)
    (HERE / "refactors" / "TWIN_FUZZ.json").write_text(json.dumps(summary, indent=1, sort_keys=True) + "\n")


if __name__ == "__main__":
    main()
