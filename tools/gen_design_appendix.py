#!/usr/bin/env python3
"""Regenerate the machine-written appendices of DESIGN.md (rules as implemented, seeded changes)."""
import importlib
import json
import sys
from pathlib import Path

HERE = Path(__file__).resolve().parent.parent
sys.path.insert(0, str(HERE))
BEGIN, END = "<!-- BEGIN GENERATED APPENDICES -->", "<!-- END GENERATED APPENDICES -->"

out = [BEGIN, "", "## Appendix C — rules as implemented (generated from `props/*.py` docstrings)", ""]
for pid in [f"C{n:02d}" for n in range(1, 21)]:
    mod = importlib.import_module(f"props.{pid}")
    muts = importlib.import_module(f"mutants.{pid}").MUTANTS
    out.append(f"### {pid} ({len(mod.RULES)} rules, {len(muts)} self-test mutants)")
    out.append("")
    out.append(mod.EXPLANATION.strip())
    out.append("")
    for fn in mod.RULES:
        rid = fn.__name__.split("_")[0].upper()
        out.append(f"* **{pid}.{rid}** `{fn.__name__}` — {(fn.__doc__ or '').strip()}")
    nd = getattr(mod, "NOT_DECIDED", [])
    if nd:
        out.append("")
        out.append("Not decided: " + "; ".join(nd) + ".")
    out.append("")
kf = json.loads((HERE / "known_findings.json").read_text())["findings"]
out += ["## Appendix D — findings file (`known_findings.json`)", "", "| status | property | rule | construct | what | commit / repro |", "|---|---|---|---|---|---|"]
for k in kf:
    out.append(f"| {k['status']} | {k['property']} | {k['rule']} | `{k['construct']}` | {k['what'][:170]} | {k.get('commit') or k.get('repro', '')} |")
out.append("")
res = HERE / "seeded" / "RESULTS.md"
out += ["## Appendix E — seeded changes and the checks that report them (`tools/run_seeds.py`)", ""]
if res.exists():
    out.append(res.read_text())
out.append(END)
p = HERE / "DESIGN.md"
s = p.read_text()
if BEGIN in s:
    s = s[: s.index(BEGIN)] + "\n".join(out) + s[s.index(END) + len(END):]
else:
    s = s.rstrip() + "\n\n" + "\n".join(out) + "\n"
p.write_text(s)
print("appendices regenerated")
