#!/usr/bin/env python3
"""Regenerate MANIFEST.json from the property modules that exist under props/."""
import importlib
import json
import sys
from pathlib import Path

HERE = Path(__file__).resolve().parent.parent
sys.path.insert(0, str(HERE))

ALL = [f"C{n:02d}" for n in range(1, 21)]
NOT_APPLICABLE = {}  # property -> reason (filled when a property is deliberately not claimed)

checks = []
na = []
for pid in ALL:
    if not (HERE / "props" / f"{pid}.py").exists():
        na.append({"property_id": pid, "reason": NOT_APPLICABLE.get(pid, "static check not built yet in this session; no verdict is claimed")})
        continue
    mod = importlib.import_module(f"props.{pid}")
    rules = [f.__name__ for f in mod.RULES]
    src = (HERE / "props" / f"{pid}.py").read_text()
    checks.append(
        {
            "property_id": pid,
            "quick_cmd": f"./check {pid} --tier quick",
            "thorough_cmd": f"./check {pid} --tier thorough",
            "evidence_file": f"evidence/{pid}.json",
            "replay_cmd_template": f"./check {pid} --replay {{path}}",
            "engine": "sa",
            "level_claimed": {
                "category": "other",
                "text": "Static analysis (no execution): " + mod.EXPLANATION + " Every rule quantifies over all paths / call sites / siblings of the parsed source, which covers every input, schedule and history that can only select among those paths. It decides the structural necessary conditions listed in DESIGN.md for this property, not the runtime values.",
                "design_ref": f"DESIGN.md section 4 ({pid})",
            },
            "level_note": "Trusted: CPython's ast parser, the own resolver/CFG/inliner/path-evaluator/poly/guard engines under sa/, and the library facts of DESIGN.md appendix B that the rules consume. Not decided: " + "; ".join(getattr(mod, "NOT_DECIDED", [])),
            "technique": getattr(mod, "TECHNIQUE", "custom static analysis over the parsed source, after helper-inlining normalisation: AST/CFG/call-graph rules" + ("; path-sensitive symbolic evaluation (sa/paths.py)" if "enumerate_paths" in src else "") + ("; exhaustive finite-domain evaluation of the deciding function by an AST interpreter (sa/minieval.py)" if "minieval" in src else "") + ("; polynomial identities (sa/poly.py)" if "to_poly" in src or "SymExec" in src else "") + " (" + ", ".join(rules) + ")"),
        }
    )

manifest = {
    "version": 1,
    "setup_cmd": "chmod +x check && ./check --help >/dev/null",
    "hooks": {
        "guard": "PYXEL_VERIF",
        "enable": "no hooks: the checks only parse /repo's source; nothing in /repo is guarded or instrumented",
        "baseline_off_cmd": "cd /repo && /venv/bin/python -m pytest -ra -q -p no:cacheprovider --timeout=900 --continue-on-collection-errors",
        "source_commits": [],
        "add_only": True,
    },
    "engines": [
        {"name": "sa", "path": "sa/", "serves_properties": [c["property_id"] for c in checks], "kind_free_text": "repository-specific static analysers over Python ast: source index + import/re-export resolution, receiver typing and call graph, helper-inlining normalisation (extract-method invariance), statement CFG with dominators/path counting, local provenance and canonical forms (accumulate-loops as comprehensions, guard clauses as nesting), path-sensitive symbolic evaluation, finite-domain evaluation of small pure functions, polynomial and guard-interval domains, effect summaries; rule modules under props/, in-memory mutation self-test under mutants/"},
    ],
    "checks": checks,
    "not_applicable": na,
    "notes": "All checks are static (technique family: static analysis). Exit 0 = all rule instances hold (KNOWN-FINDING lines for listed findings), exit 1 = VIOLATION lines, exit 2 = ANALYSIS-ERROR (anchor vanished / unknown construct), never a violation. known_findings.json lists recorded findings and fixed: entries.",
}
(HERE / "MANIFEST.json").write_text(json.dumps(manifest, indent=1) + "\n")
print(f"{len(checks)} checks, {len(na)} not applicable")
