#!/usr/bin/env python3
"""Run every check against every seeded change (in scratch copies outside /repo and /verif) and
tabulate which checks report it.  Writes seeded/RESULTS.json and seeded/RESULTS.md."""
import json
import shutil
import subprocess
import sys
import tempfile
from concurrent.futures import ThreadPoolExecutor
from pathlib import Path

HERE = Path(__file__).resolve().parent.parent
REPO = Path("/repo")
props = sorted(p.stem for p in (HERE / "props").glob("C*.py"))
seeds = sorted(d.name for d in (HERE / "seeded").iterdir() if d.is_dir() and (d / "patch.diff").exists() and not d.name.startswith("_"))
only = sys.argv[1:] or seeds


def run_seed(sid):
    tmp = Path(tempfile.mkdtemp(prefix=f"seedrun_{sid}_"))
    try:
        shutil.copytree(REPO / "pyxel", tmp / "pyxel")
        r = subprocess.run(["patch", "-p1", "-s", "-i", str(HERE / "seeded" / sid / "patch.diff")], cwd=tmp, capture_output=True, text=True)
        if r.returncode != 0:
            return sid, {"error": "patch does not apply: " + (r.stdout + r.stderr)[-200:]}
        out = {}
        for p in props:
            c = subprocess.run([str(HERE / "check"), p, "--repo", str(tmp), "--no-evidence"], capture_output=True, text=True, cwd=HERE)
            lines = [l.strip() for l in c.stdout.splitlines() if l.startswith("  ")]
            if c.returncode == 1:
                out[p] = sorted({l.split(" ")[1] for l in lines if len(l.split(" ")) > 1})
            elif c.returncode == 2:
                out[p] = ["ANALYSIS-ERROR: " + c.stdout.strip().splitlines()[-1][:120]]
        return sid, out
    finally:
        shutil.rmtree(tmp, ignore_errors=True)


with ThreadPoolExecutor(max_workers=8) as ex:
    results = dict(ex.map(run_seed, only))
path = HERE / "seeded" / "RESULTS.json"
old = json.loads(path.read_text()) if path.exists() else {}
old.update(results)
path.write_text(json.dumps(old, indent=1, sort_keys=True))
lines = ["| seeded change | property | what it changes | needs | reported by |", "|---|---|---|---|---|"]
for sid in sorted(old):
    meta = {}
    mp = HERE / "seeded" / sid / "meta.json"
    if mp.exists():
        try:
            meta = json.loads(mp.read_text())
        except Exception:
            pass
    rep = "; ".join(f"{p}: {', '.join(v)}" for p, v in sorted(old[sid].items())) or "**not reported**"
    lines.append(f"| {sid} | {meta.get('property', sid[:3])} | {str(meta.get('summary', ''))[:160].replace('|', '/')} | {str(meta.get('needs', ''))[:140].replace('|', '/')} | {rep} |")
(HERE / "seeded" / "RESULTS.md").write_text("\n".join(lines) + "\n")
own_miss = [s for s in sorted(old) if s[:3] not in old[s] or all(str(x).startswith("ANALYSIS-ERROR") for x in old[s][s[:3]])]
print(f"{len(old)} seeded changes; not reported by their own property's check: {own_miss}")
